import Treepath.Proofs.SimX
import Treepath.Proofs.Budget
/-
End to end without the `Quiet` premise: for every path (predicates may raise, slices may have
a zero step), what a fresh iterator does — results, `StopIteration`, the exception that comes
out of `next()` — is what the step-by-step definition `evalE` says, exception included.
-/
namespace Treepath

theorem hrun_stuck {α : Type} (view : α → View α) (steps : Array (Step α)) (src : Src α) (st : St α)
    (evs : List (Ev α)) (sig : Sig α) (h : action view steps src st = (st, evs, sig)) (m : Nat) :
    hrun view steps src m st = (st, (List.replicate m evs).flatten) := by
  induction m with
  | zero => rfl
  | succ m ih => simp [hrun, h, ih, List.replicate_succ]

theorem firstRaise_ttr {α} (l : List (Ev α)) : firstRaise (takeThroughRaise l) = firstRaise l := by
  induction l with
  | nil => rfl
  | cons e t ih => cases e <;> simp [takeThroughRaise, firstRaise, ih]

theorem ttr_idem {α} (l : List (Ev α)) : takeThroughRaise (takeThroughRaise l) = takeThroughRaise l := by
  induction l with
  | nil => rfl
  | cons e t ih => cases e <;> simp [takeThroughRaise, ih]

theorem firstRaise_flatten_replicate {α} (evs : List (Ev α)) (e : Exc) (h : firstRaise evs = some e) (m : Nat) (hm : 0 < m) :
    firstRaise (List.replicate m evs).flatten = some e := by
  cases m with
  | zero => omega
  | succ m => simp [List.replicate_succ, firstRaise_append, h]

theorem firstRaise_replicate_stop {α} (d : Nat) : firstRaise (List.replicate d (Ev.stop : Ev α)) = none := by
  induction d with
  | zero => rfl
  | succ d ih => simp [List.replicate_succ, firstRaise, ih]

section
variable (steps : Array (Step J)) (src : Src J)

/-- **the whole run of a fresh iterator, exceptions included**: it emits the specification's
stream to the end and is exhausted, or emits it through its first raise and is stuck in the
action that raises -/
theorem full_run_x (hp : PredsClean steps) :
    (firstRaise (stream steps.toList 0 src.rootNode) = none ∧
      ∃ k stD, hrun J.view steps src k freshIter = (stD, stream steps.toList 0 src.rootNode) ∧ stD.act = .done) ∨
    (∃ e, firstRaise (stream steps.toList 0 src.rootNode) = some e ∧
      ∃ k stU evs', hrun J.view steps src k freshIter = (stU, takeThroughRaise (stream steps.toList 0 src.rootNode)) ∧
        action J.view steps src stU = (stU, evs', .raised e) ∧ firstRaise evs' = some e) := by
  have hinit : R steps (freshIter : St J) .init := .init _ rfl
  rcases simx_init steps src hp with ⟨hn, k, hk⟩ | ⟨e, hf, k, U, hk, evs', hU, hfe⟩
  · left
    obtain ⟨hR, hev⟩ := hrun_bisim J.view steps src k freshIter .init hinit
    rw [hk] at hR hev
    exact ⟨hn, k, _, Prod.ext rfl (by simpa using hev), R_done_act steps hR⟩
  · right
    obtain ⟨hR, hev⟩ := hrun_bisim J.view steps src k freshIter .init hinit
    rw [hk] at hR hev
    obtain ⟨_, hb⟩ := bisim steps J.view src _ U hR
    rw [hU] at hb
    rcases ha : action J.view steps src (hrun J.view steps src k freshIter).1 with ⟨s1, e1, sg⟩
    rw [ha] at hb
    simp only [Prod.mk.injEq] at hb
    obtain ⟨rfl, rfl⟩ := hb
    have hs := action_raised_state J.view steps src _ s1 e1 e ha
    subst hs
    exact ⟨e, hf, k, _, e1, Prod.ext rfl (by simpa using hev), ha, hfe⟩

/-- events of successful calls contain no exception -/
theorem yields_noraise (hp : PredsClean steps) (limit : Nat) (st st' : St J) (rs : List (MNode J)) (E : List (Ev J))
    (hy : Yields J.view steps src limit st rs E st') : firstRaise E = none := by
  induction hy with
  | nil st => rfl
  | cons st st1 st2 evs n rs E hn _ ih =>
    obtain ⟨j1, pre, last, _, hev, hcl, hl⟩ := next_segment J.view steps src hp limit st st1 evs _ hn (.inl ⟨n, rfl⟩)
    have hlast : last = .result n := by
      rcases hl with ⟨m, hm, hl⟩ | ⟨hm, _⟩
      · simp only [Sig.result.injEq] at hm; rw [hl, hm]
      · simp at hm
    rw [firstRaise_append, hev, firstRaise_append, firstRaise_clean pre hcl, hlast]
    simpa [firstRaise] using ih

/-- **lazy prefix, for every path**: the results of successful `next()` calls are a prefix
of the results the definition produces before its first exception -/
theorem yields_prefix_x (hp : PredsClean steps) (limit : Nat) (st' : St J) (rs : List (MNode J)) (E : List (Ev J))
    (hy : Yields J.view steps src limit freshIter rs E st') :
    ∃ rest, (evalE steps.toList src.rootNode).1 = rs ++ rest := by
  obtain ⟨j, hj, hr, hns⟩ := yields_run J.view steps src hp limit _ _ _ _ hy
  have hnr := yields_noraise steps src hp limit _ _ _ _ hy
  have hcut := cut_stream steps.toList (by simpa using hp) 0 src.rootNode
  have hres : (evalE steps.toList src.rootNode).1 = resultsOf (takeThroughRaise (stream steps.toList 0 src.rootNode)) := by
    rw [← hcut]; rfl
  rw [hres]
  rcases full_run_x steps src hp with ⟨hn, k, stD, hfull, hdone⟩ | ⟨e, hf, k, stU, evs', hfull, hact, hfe⟩
  · rw [ttr_noraise _ hn]
    by_cases hle : j ≤ k
    · have : k = j + (k - j) := by omega
      rw [this, hrun_add, hj] at hfull
      simp only [Prod.mk.injEq] at hfull
      exact ⟨_, by rw [← hfull.2, resultsOf_append, hr]⟩
    · have : j = k + (j - k) := by omega
      rw [this, hrun_add, hfull, hrun_done _ _ _ _ _ hdone] at hj
      simp only [Prod.mk.injEq] at hj
      have hmem : (Ev.stop : Ev J) ∈ E := by
        rw [← hj.2]
        apply List.mem_append_right
        cases hx : j - k with
        | zero => omega
        | succ x => simp [List.replicate_succ]
      have := hns _ hmem
      simp [Ev.isStop] at this
  · by_cases hle : j ≤ k
    · have : k = j + (k - j) := by omega
      rw [this, hrun_add, hj] at hfull
      simp only [Prod.mk.injEq] at hfull
      exact ⟨_, by rw [← hfull.2, resultsOf_append, hr]⟩
    · have : j = k + (j - k) := by omega
      rw [this, hrun_add, hfull, hrun_stuck J.view steps src stU evs' _ hact] at hj
      simp only [Prod.mk.injEq] at hj
      have : firstRaise E = some e := by
        rw [← hj.2, firstRaise_append, firstRaise_ttr, hf]
      rw [hnr] at this
      simp at this

/-- **exhaustion, for every path**: `StopIteration` means the definition finished without an
exception and everything it selects has been yielded -/
theorem exhausted_all_x (hp : PredsClean steps) (limit : Nat) (st' st'' : St J)
    (rs : List (MNode J)) (E evs : List (Ev J))
    (hy : Yields J.view steps src limit freshIter rs E st')
    (hstop : next J.view steps src limit st' = (st'', evs, .stop)) :
    evalE steps.toList src.rootNode = (rs, none) := by
  obtain ⟨j, hj, hr, _⟩ := yields_run J.view steps src hp limit _ _ _ _ hy
  obtain ⟨j2, pre, last, h2, hev, hcl, hl⟩ := next_segment J.view steps src hp limit st' st'' evs _ hstop (.inr rfl)
  have hlast : last = .stop := by
    rcases hl with ⟨m, hm, _⟩ | ⟨_, hl⟩
    · simp at hm
    · exact hl
  have hact : st''.act = .done := next_stop_done J.view steps src limit st' st'' evs hstop
  have htot : hrun J.view steps src (j + j2) freshIter = (st'', E ++ evs) := by rw [hrun_add, hj, h2]
  have hrE : resultsOf (E ++ evs) = rs := by
    rw [resultsOf_append, hr, hev, hlast, resultsOf_append, resultsOf_clean pre hcl]
    simp [resultsOf]
  have hcut := cut_stream steps.toList (by simpa using hp) 0 src.rootNode
  have hdoneact : ∀ st : St J, st.act = .done → ∀ s1 e1 x, action J.view steps src st ≠ (s1, e1, .raised x) := by
    intro st h s1 e1 x ha
    simp [action, h] at ha
  rcases full_run_x steps src hp with ⟨hn, k, stD, hfull, hdone⟩ | ⟨e, hf, k, stU, evs', hfull, hact', hfe⟩
  · have hE : evalE steps.toList src.rootNode = (resultsOf (stream steps.toList 0 src.rootNode), none) := by
      rw [← hcut]; simp only [cut, ttr_noraise _ hn, hn]
    rw [hE]
    congr 1
    by_cases hle : j + j2 ≤ k
    · have : k = (j + j2) + (k - (j + j2)) := by omega
      rw [this, hrun_add, htot, hrun_done _ _ _ _ _ hact] at hfull
      simp only [Prod.mk.injEq] at hfull
      rw [← hfull.2, resultsOf_append, hrE, resultsOf_replicate_stop]
      simp
    · have : j + j2 = k + (j + j2 - k) := by omega
      rw [this, hrun_add, hfull, hrun_done _ _ _ _ _ hdone] at htot
      simp only [Prod.mk.injEq] at htot
      rw [← hrE, ← htot.2, resultsOf_append, resultsOf_replicate_stop]
      simp
  · -- a stream with a raise never reaches the `done` state
    exfalso
    by_cases hle : j + j2 ≤ k
    · have : k = (j + j2) + (k - (j + j2)) := by omega
      rw [this, hrun_add, htot, hrun_done _ _ _ _ _ hact] at hfull
      simp only [Prod.mk.injEq] at hfull
      exact hdoneact stU (by rw [← hfull.1]; exact hact) _ _ _ hact'
    · have : j + j2 = k + (j + j2 - k) := by omega
      rw [this, hrun_add, hfull, hrun_stuck J.view steps src stU evs' _ hact'] at htot
      simp only [Prod.mk.injEq] at htot
      exact hdoneact stU (by rw [htot.1]; exact hact) _ _ _ hact'

/-- an action of the stack machine that raises emits clean events and then that raise -/
theorem astep_raise_shape (hp : PredsClean steps) (as as' : AS J) (evs : List (Ev J)) (x : Exc)
    (h : astep J.view steps src as = (as', evs, .raised x)) :
    ∃ A, evs = A ++ [.raised x] ∧ ∀ e ∈ A, e.isClean = true := by
  cases as with
  | init => simp [astep] at h
  | done => simp [astep] at h
  | report n vertex vidx stk => simp only [astep] at h; split at h <;> simp at h
  | catch_ stk => simp [astep] at h
  | parked stk =>
    cases stk with
    | nil => simp [astep] at h
    | cons fr stk =>
      simp only [astep] at h
      split at h
      · simp only [aRecIter] at h
        split at h
        · simp at h
        · split at h <;> simp at h
      · simp only [aIter] at h
        split at h <;> simp at h
      · simp at h
  | attempt n vidx stk =>
    simp only [astep, aAttempt] at h
    split at h
    · simp at h
    · rename_i s hs
      have hmem : s ∈ steps.toList := by
        obtain ⟨hi, hv⟩ := Array.getElem?_eq_some_iff.mp hs
        rw [← hv]; simp
      split at h
      · rename_i f
        split at h
        · split at h <;> simp at h
        · simp only [Prod.mk.injEq, Sig.raised.injEq] at h
          obtain ⟨_, h2, h3⟩ := h
          subst h3
          refine ⟨Ev.predCall n :: (f n).evs, by rw [← h2], ?_⟩
          intro e he
          simp only [List.mem_cons] at he
          rcases he with rfl | he
          · rfl
          · exact hp _ hmem f rfl n e he
      · split at h <;> simp at h
      · split at h <;> simp at h
      · split at h <;> simp at h
      · split at h <;> simp at h
      · split at h
        · simp at h
        · simp only [Prod.mk.injEq, Sig.raised.injEq] at h
          obtain ⟨_, h2, h3⟩ := h
          subst h3
          exact ⟨[], by rw [← h2]; rfl, by simp⟩
        · simp only [aIter] at h
          split at h <;> simp at h

end

/-- a `next()` that raises: either the budget ran out, or a run of clean actions led to an
action that raised -/
theorem next_raise_segment {α : Type} (view : α → View α) (steps : Array (Step α)) (src : Src α)
    (hp : PredsClean steps) (limit : Nat) (st st' : St α) (evs : List (Ev α)) (x : Exc)
    (h : next view steps src limit st = (st', evs, .raised x)) :
    x = .loopDetected ∨
    ∃ j pre st1 aevs, hrun view steps src j st = (st1, pre) ∧ (∀ e ∈ pre, e.isClean = true) ∧
      action view steps src st1 = (st', aevs, .raised x) ∧ evs = pre ++ aevs := by
  induction limit generalizing st evs with
  | zero =>
    simp only [next, Prod.mk.injEq, Sig.raised.injEq] at h
    exact .inl h.2.2.symm
  | succ limit ih =>
    unfold next at h
    rcases ha : action view steps src st with ⟨s1, e1, sg⟩
    obtain ⟨hnone, _, _⟩ := action_events view steps src hp st s1 e1 sg ha
    rw [ha] at h
    cases sg with
    | none =>
      simp only at h
      split at h
      · simp only [Prod.mk.injEq, Sig.raised.injEq] at h
        exact .inl h.2.2.symm
      · rcases hn : next view steps src limit s1 with ⟨s2, e2, sig2⟩
        rw [hn] at h
        simp only [Prod.mk.injEq] at h
        obtain ⟨h1, h2, h3⟩ := h
        subst h1; subst h3
        rcases ih s1 e2 hn with hl | ⟨j, pre, st1, aevs, hj, hcl, hact, hev⟩
        · exact .inl hl
        · refine .inr ⟨j + 1, e1 ++ pre, st1, aevs, ?_, ?_, hact, ?_⟩
          · simp only [hrun, ha, hj]
          · intro e he
            simp only [List.mem_append] at he
            rcases he with he | he
            · exact hnone rfl e he
            · exact hcl e he
          · rw [← h2, hev, List.append_assoc]
    | result n =>
      simp only at h
      split at h
      · simp only [Prod.mk.injEq, Sig.raised.injEq] at h
        exact .inl h.2.2.symm
      · simp at h
    | raised y =>
      simp only [Prod.mk.injEq, Sig.raised.injEq] at h
      obtain ⟨h1, h2, h3⟩ := h
      subst h1; subst h2; subst h3
      exact .inr ⟨0, [], st, e1, rfl, by simp, ha, by simp⟩
    | bug m => simp at h
    | stop => simp at h

section
variable (steps : Array (Step J)) (src : Src J)

theorem resultsOf_clean_raise (A : List (Ev J)) (x : Exc) (h : ∀ e ∈ A, e.isClean = true) :
    resultsOf (A ++ [Ev.raised x]) = [] := by
  rw [resultsOf_append, resultsOf_clean A h]; simp [resultsOf]

/-- **the exception that comes out of `next()` is the definition's exception**: for every path,
if after any number of successful calls `next()` raises (anything but the loop budget), then
the step-by-step definition produces exactly the results yielded so far and then fails with
exactly that exception — it is never swallowed, never turned into a non-match, nothing is
yielded after it, and nothing the definition selects before it is missing -/
theorem raises_x (hp : PredsClean steps) (limit : Nat) (st' st'' : St J)
    (rs : List (MNode J)) (E evs : List (Ev J)) (x : Exc)
    (hy : Yields J.view steps src limit freshIter rs E st')
    (hraise : next J.view steps src limit st' = (st'', evs, .raised x)) (hx : x ≠ .loopDetected) :
    evalE steps.toList src.rootNode = (rs, some x) := by
  obtain ⟨j, hj, hr, _⟩ := yields_run J.view steps src hp limit _ _ _ _ hy
  have hnr := yields_noraise steps src hp limit _ _ _ _ hy
  rcases next_raise_segment J.view steps src hp limit st' st'' evs x hraise with hl | ⟨j1, pre, st1, aevs, hj1, hcl, hact, hev⟩
  · exact absurd hl hx
  have hst : st'' = st1 := action_raised_state J.view steps src st1 st'' aevs x hact
  subst hst
  -- the raising action's events: clean, then the raise
  have hinit : R steps (freshIter : St J) .init := .init _ rfl
  have hrun1 : hrun J.view steps src (j + j1) freshIter = (st'', E ++ pre) := by rw [hrun_add, hj, hj1]
  obtain ⟨hR, _⟩ := hrun_bisim J.view steps src (j + j1) freshIter .init hinit
  rw [hrun1] at hR
  obtain ⟨_, hb⟩ := bisim steps J.view src st'' _ hR
  rw [hact] at hb
  rcases has : astep J.view steps src (arun J.view steps src (j + j1) .init).1 with ⟨as', aevs', sg'⟩
  rw [has] at hb
  simp only [Prod.mk.injEq] at hb
  obtain ⟨hb1, hb2⟩ := hb
  subst hb1; subst hb2
  obtain ⟨A, hA, hAc⟩ := astep_raise_shape steps src hp _ _ _ _ has
  -- X1 = everything emitted up to and including the raise
  have hX1f : firstRaise (E ++ pre ++ aevs) = some x := by
    rw [firstRaise_append, firstRaise_append, hnr, firstRaise_clean pre hcl, hA, firstRaise_append, firstRaise_clean A hAc]
    rfl
  have hX1t : takeThroughRaise (E ++ pre ++ aevs) = E ++ pre ++ aevs := by
    have h1 : firstRaise (E ++ pre ++ A) = none := by
      rw [firstRaise_append, firstRaise_append, hnr, firstRaise_clean pre hcl, firstRaise_clean A hAc]
    have := ttr_append_none (E ++ pre ++ A) [Ev.raised x] h1
    rw [hA, ← List.append_assoc]
    simpa [takeThroughRaise] using this
  have hX1r : resultsOf (E ++ pre ++ aevs) = rs := by
    rw [resultsOf_append, resultsOf_append, hr, resultsOf_clean pre hcl, hA, resultsOf_clean_raise A x hAc]
    simp
  have htot : hrun J.view steps src (j + j1 + 1) freshIter = (st'', E ++ pre ++ aevs) := by
    rw [hrun_add, hrun1]
    simp [hrun, hact]
  have hcut := cut_stream steps.toList (by simpa using hp) 0 src.rootNode
  rcases full_run_x steps src hp with ⟨hn, k, stD, hfull, hdone⟩ | ⟨e, hf, k, stU, evs', hfull, hact', hfe⟩
  · exfalso
    by_cases hle : j + j1 + 1 ≤ k
    · have : k = (j + j1 + 1) + (k - (j + j1 + 1)) := by omega
      rw [this, hrun_add, htot] at hfull
      simp only [Prod.mk.injEq] at hfull
      rw [← hfull.2, firstRaise_append, hX1f] at hn
      simp at hn
    · have : j + j1 + 1 = k + (j + j1 + 1 - k) := by omega
      rw [this, hrun_add, hfull, hrun_done _ _ _ _ _ hdone] at htot
      simp only [Prod.mk.injEq] at htot
      rw [← htot.2, firstRaise_append, hn, firstRaise_replicate_stop] at hX1f
      simp at hX1f
  · have hkey : takeThroughRaise (stream steps.toList 0 src.rootNode) = E ++ pre ++ aevs := by
      by_cases hle : j + j1 + 1 ≤ k
      · have : k = (j + j1 + 1) + (k - (j + j1 + 1)) := by omega
        rw [this, hrun_add, htot] at hfull
        simp only [Prod.mk.injEq] at hfull
        have := congrArg takeThroughRaise hfull.2
        rw [ttr_append_some _ _ x hX1f, hX1t, ttr_idem] at this
        exact this.symm
      · have : j + j1 + 1 = k + (j + j1 + 1 - k) := by omega
        rw [this, hrun_add, hfull] at htot
        simp only [Prod.mk.injEq] at htot
        have := congrArg takeThroughRaise htot.2
        rw [ttr_append_some _ _ e (by rw [firstRaise_ttr]; exact hf), ttr_idem, hX1t] at this
        exact this
    rw [← hcut]
    simp only [cut]
    rw [hkey, hX1r, ← firstRaise_ttr, hkey, hX1f]

end
end Treepath
