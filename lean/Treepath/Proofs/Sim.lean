import Treepath.Proofs.Stack
import Treepath.Proofs.StreamLemmas
import Treepath.Proofs.ErrorLemmas
import Treepath.Proofs.EvalLemmas
/-
Semantic half of the refinement: on JSON trees, for paths whose predicates do not raise, the
stack machine started at `report n` with `i` steps consumed emits exactly
`stream (steps.drop i) i n` and arrives at `resume stack`.
-/
namespace Treepath

/-- no step of the list can raise: filters return a value on every node, slices have a
non-zero step -/
def Quiet (ss : List (Step J)) : Prop :=
  ∀ s ∈ ss, s.supported = true ∧ (∀ f, s = .filter f → ∀ n, ∃ j, (f n).res = .val j)

section
variable (steps : Array (Step J)) (src : Src J)

local notation "run" => arun J.view steps src

theorem run_cons {s s' t : AS J} {evs evs' : List (Ev J)} {sig : Sig J}
    (h : astep J.view steps src s = (s', evs, sig)) {k : Nat} (hk : run k s' = (t, evs')) :
    run (k+1) s = (t, evs ++ evs') := by
  simp [arun, h, hk]

theorem run_zero (s : AS J) : run 0 s = (s, []) := rfl

/-- resuming a suspended (non-recursive) multi-valued step: the remaining items, then
exhaustion, then the frames below -/
theorem parked_run (s : Step J) (rest : List (Step J)) (vi : Nat) (n : MNode J)
    (hs : steps[vi]? = some s) (hnr : s.isRecur = false)
    (ih : ∀ (c : MNode J) (stk : List (Frame J)), ∃ k,
        run k (.report c (vi+1) (vi+1) stk) = (resume stk, stream rest (vi+1) c))
    (its : List (Name × J)) (stk : List (Frame J)) :
    ∃ k, run k (.parked (⟨n, vi, its⟩ :: stk)) =
      (resume stk,
        (its.flatMap fun (nm, x) =>
          Ev.attempt n (vi+1) (some (MNode.child n nm x)) none :: stream rest (vi+1) (MNode.child n nm x))
        ++ [Ev.attempt n (vi+1) none none]) := by
  have hstep : ∀ its, astep J.view steps src (.parked (⟨n, vi, its⟩ :: stk)) = aIter n vi its stk := by
    intro its
    simp only [astep, hs]
    cases s <;> simp [Step.isRecur] at hnr <;> rfl
  induction its with
  | nil => exact ⟨1, by rw [arun_one, hstep]; simp [aIter]⟩
  | cons it tl ihl =>
    obtain ⟨nm, x⟩ := it
    obtain ⟨k1, h1⟩ := ih (.child n nm x) (⟨n, vi, tl⟩ :: stk)
    obtain ⟨k2, h2⟩ := ihl
    refine ⟨1 + (k1 + k2), ?_⟩
    rw [arun_add, arun_one, hstep]
    simp only [aIter]
    rw [arun_add, h1]
    have hr : resume (⟨n, vi, tl⟩ :: stk) = AS.parked (⟨n, vi, tl⟩ :: stk) := rfl
    simp only [hr, h2]
    simp [List.append_assoc]

/-- on a multi-valued step the attempt is the iterator protocol of `aIter` -/
theorem aAttempt_multi (s : Step J) (hm : s.cls = .multi) (n : MNode J) (vi : Nat) (stk : List (Frame J))
    (hs : steps[vi]? = some s) :
    aAttempt J.view steps n vi stk =
      match itemsOf s n.data.view with
      | .wrongKind => (resume stk, [.attempt n (vi+1) none none], .none)
      | .valueError => (.attempt n vi stk, [.raised (.user "ValueError")], .raised (.user "ValueError"))
      | .ok its => aIter n vi its stk := by
  cases s <;> simp [Step.cls] at hm <;> simp only [aAttempt, hs] <;> split <;> simp_all

/-- a multi-valued step from its first item on -/
theorem multi_run (s : Step J) (hm : s.cls = .multi) (rest : List (Step J)) (vi : Nat) (n : MNode J)
    (hs : steps[vi]? = some s)
    (ih : ∀ (c : MNode J) (stk : List (Frame J)), ∃ k,
        run k (.report c (vi+1) (vi+1) stk) = (resume stk, stream rest (vi+1) c))
    (its : List (Name × J)) (stk : List (Frame J)) :
    ∃ k r, run k (aIter n vi its stk).1 = (resume stk, r) ∧
      (aIter n vi its stk).2.1 ++ r =
        (its.flatMap fun (nm, x) =>
          Ev.attempt n (vi+1) (some (MNode.child n nm x)) none :: stream rest (vi+1) (MNode.child n nm x))
        ++ [Ev.attempt n (vi+1) none none] := by
  have hnr : s.isRecur = false := by cases s <;> simp [Step.cls] at hm <;> rfl
  cases its with
  | nil => exact ⟨0, [], rfl, by simp [aIter]⟩
  | cons it tl =>
    obtain ⟨nm, x⟩ := it
    obtain ⟨k1, h1⟩ := ih (.child n nm x) (⟨n, vi, tl⟩ :: stk)
    obtain ⟨k2, h2⟩ := parked_run steps src s rest vi n hs hnr ih tl stk
    refine ⟨k1 + k2, stream rest (vi+1) (MNode.child n nm x) ++
      ((tl.flatMap fun (nm, x) =>
          Ev.attempt n (vi+1) (some (MNode.child n nm x)) none :: stream rest (vi+1) (MNode.child n nm x))
        ++ [Ev.attempt n (vi+1) none none]), ?_, ?_⟩
    · simp only [aIter]
      rw [arun_add, h1]
      have hr : resume (⟨n, vi, tl⟩ :: stk) = AS.parked (⟨n, vi, tl⟩ :: stk) := rfl
      simp only [hr, h2]
    · simp [aIter, List.append_assoc]

/-- the recursive step over the remaining children `its` of `n`, given that each child value
is handled (tree induction supplies `hchild`) -/
theorem rec_items_run (kk : MNode J → List (Ev J)) (last : Bool) (vi : Nat) (n : MNode J)
    (hs : steps[vi]? = some .recur) (its : List (Name × J)) (stk : List (Frame J))
    (hchild : ∀ nm x tl, (nm, x) ∈ its → ∃ k, run k (.parked (⟨n, vi, (nm, x) :: tl⟩ :: stk)) =
        (AS.parked (⟨n, vi, tl⟩ :: stk), recChild kk last vi n nm x)) :
    ∃ k, run k (.parked (⟨n, vi, its⟩ :: stk)) =
      (resume stk, recItems kk last vi n its ++ [Ev.attempt n (vi+1) none none]) := by
  induction its with
  | nil =>
    refine ⟨1, ?_⟩
    rw [arun_one]
    simp [astep, hs, aRecIter, recItems]
  | cons it tl ihl =>
    obtain ⟨nm, x⟩ := it
    obtain ⟨k1, h1⟩ := hchild nm x tl (by simp)
    obtain ⟨k2, h2⟩ := ihl (fun nm' x' tl' hm => hchild nm' x' tl' (List.mem_cons_of_mem _ hm))
    refine ⟨k1 + k2, ?_⟩
    rw [arun_add, h1]
    simp only [h2, recItems, List.flatMap_cons, List.append_assoc]

/-- one child of a recursive step (by strong induction on the size of its value) -/
theorem rec_child_run (rest : List (Step J)) (vi : Nat)
    (hs : steps[vi]? = some .recur) (hlast : (vi + 1 = steps.size) ↔ rest = [])
    (ih : ∀ (c : MNode J) (stk : List (Frame J)), ∃ k,
        run k (.report c (vi+1) (vi+1) stk) = (resume stk, stream rest (vi+1) c)) :
    ∀ (N : Nat) (x : J), J.sz x ≤ N → ∀ (n : MNode J) (nm : Name) (tl : List (Name × J)) (stk : List (Frame J)),
      ∃ k, run k (.parked (⟨n, vi, (nm, x) :: tl⟩ :: stk)) =
        (AS.parked (⟨n, vi, tl⟩ :: stk), recChild (fun m => stream rest (vi+1) m) rest.isEmpty vi n nm x) := by
  intro N
  induction N with
  | zero =>
    intro x hx
    cases x <;> simp [J.sz] at hx
  | succ N ihN =>
    intro x hx n nm tl stk
    have hstep : astep J.view steps src (.parked (⟨n, vi, (nm, x) :: tl⟩ :: stk)) = aRecIter J.view n vi ((nm, x) :: tl) stk := by
      simp [astep, hs]
    cases hc : allItems x.view with
    | none =>
      -- a scalar child is returned itself, with the recursive vertex but `vertex_index - 1`
      rw [recChild_scalar _ _ _ _ _ _ hc]
      have a1 : astep J.view steps src (.parked (⟨n, vi, (nm, x) :: tl⟩ :: stk)) =
          (.report (.child n nm x) (vi+1) vi (⟨n, vi, tl⟩ :: stk), [.attempt n (vi+1) (some (.child n nm x)) none], .none) := by
        rw [hstep]; simp [aRecIter, hc]
      by_cases hl : vi + 1 = steps.size
      · have hre : rest.isEmpty = true := by simp [hlast.mp hl]
        have a2 : astep J.view steps src (.report (.child n nm x) (vi+1) vi (⟨n, vi, tl⟩ :: stk)) =
            (.catch_ (⟨n, vi, tl⟩ :: stk), [.result (.child n nm x)], .result (.child n nm x)) := by
          simp [astep, hl]
        have a3 : astep J.view steps src (.catch_ (⟨n, vi, tl⟩ :: stk)) = (.parked (⟨n, vi, tl⟩ :: stk), [], .none) := rfl
        refine ⟨3, ?_⟩
        rw [run_cons steps src a1 (run_cons steps src a2 (run_cons steps src a3 (run_zero steps src _)))]
        simp [hre]
      · have hre : rest.isEmpty = false := by
          cases hr : rest with
          | nil => exact absurd (hlast.mpr hr) hl
          | cons _ _ => rfl
        have a2 : astep J.view steps src (.report (.child n nm x) (vi+1) vi (⟨n, vi, tl⟩ :: stk)) =
            (.attempt (.child n nm x) vi (⟨n, vi, tl⟩ :: stk), [], .none) := by
          simp [astep, hl]
        have a3 : astep J.view steps src (.attempt (.child n nm x) vi (⟨n, vi, tl⟩ :: stk)) =
            (.parked (⟨n, vi, tl⟩ :: stk), [.attempt (.child n nm x) (vi+1) none none], .none) := by
          simp [astep, aAttempt, hs, MNode.data, hc, resume]
        refine ⟨3, ?_⟩
        rw [run_cons steps src a1 (run_cons steps src a2 (run_cons steps src a3 (run_zero steps src _)))]
        simp [hre]
    | some cits =>
      rw [recChild_container _ _ _ _ _ _ cits hc]
      let m := MNode.child n nm x
      obtain ⟨k1, h1⟩ := ih (.imag m) (⟨m, vi, cits⟩ :: ⟨n, vi, tl⟩ :: stk)
      have hsmall : ∀ nm' x', (nm', x') ∈ cits → J.sz x' ≤ N := by
        intro nm' x' hm
        cases x <;> simp [J.view, allItems] at hc
        · subst hc; have := sz_mem_listItems _ nm' x' hm; omega
        · subst hc; have := sz_mem_dictItems _ nm' x' hm; omega
      obtain ⟨k2, h2⟩ := rec_items_run steps src (fun m => stream rest (vi+1) m) rest.isEmpty vi m hs cits (⟨n, vi, tl⟩ :: stk)
        (fun nm' x' tl' hm => ihN x' (hsmall nm' x' hm) m nm' tl' (⟨n, vi, tl⟩ :: stk))
      refine ⟨1 + (k1 + k2), ?_⟩
      rw [arun_add, arun_one, hstep]
      simp only [aRecIter, hc]
      rw [arun_add, h1]
      have hr : resume (⟨m, vi, cits⟩ :: ⟨n, vi, tl⟩ :: stk) = AS.parked (⟨m, vi, cits⟩ :: ⟨n, vi, tl⟩ :: stk) := rfl
      simp only [hr, h2]
      simp [m, resume, List.append_assoc]

/-- **Simulation**: with `steps = pre ++ rest` and a quiet `rest`, the stack machine at
`report n` emits `stream rest pre.length n` and arrives at `resume stack`. -/
theorem sim (rest : List (Step J)) :
    ∀ (pre : List (Step J)) (n : MNode J) (stk : List (Frame J)),
      steps.toList = pre ++ rest → Quiet rest →
      ∃ k, run k (.report n pre.length pre.length stk) = (resume stk, stream rest pre.length n) := by
  induction rest with
  | nil =>
    intro pre n stk hd _
    refine ⟨2, ?_⟩
    have hsz : pre.length = steps.size := by
      have := congrArg List.length hd; simp at this; omega
    have : (2 : Nat) = 1 + 1 := rfl
    rw [this, arun_add, arun_one]
    simp only [astep, hsz, if_true]
    rw [arun_one]
    simp [astep, stream]
  | cons s rest ih =>
    intro pre n stk hd hq
    have hsz : steps.size = pre.length + (rest.length + 1) := by
      have := congrArg List.length hd; simp at this; omega
    have hget : steps[pre.length]? = some s := by
      rw [← Array.getElem?_toList, hd]; simp
    have hne : ¬ pre.length = steps.size := by omega
    have hd' : steps.toList = (pre ++ [s]) ++ rest := by simp [hd]
    have hq' : Quiet rest := fun t ht => hq t (List.mem_cons_of_mem _ ht)
    have ih' := fun c stk => ih (pre ++ [s]) c stk hd' hq'
    simp only [List.length_append, List.length_cons, List.length_nil, Nat.zero_add] at ih'
    have hqs := hq s (by simp)
    -- the first two actions: report (not the last vertex), then the attempt
    have start : ∀ r : AS J × List (Ev J),
        (∃ k, run k (aAttempt J.view steps n pre.length stk).1 = (r.1, r.2)) →
        ∃ k, run k (.report n pre.length pre.length stk) = (r.1, (aAttempt J.view steps n pre.length stk).2.1 ++ r.2) := by
      intro r ⟨k, hk⟩
      refine ⟨1 + (1 + k), ?_⟩
      rw [arun_add, arun_one]
      simp only [astep, hne, if_false]
      rw [arun_add, arun_one]
      simp only [astep, hk, List.nil_append]
    by_cases hm : s.cls = .multi
    · -- every multi-valued step (wildcards, slice, comma list, generic wildcard)
      have hA := aAttempt_multi steps s hm n pre.length stk hget
      cases hio : itemsOf s n.data.view with
      | wrongKind =>
        rw [hio] at hA
        have := start (resume stk, []) ⟨0, by simp [hA, arun]⟩
        simpa [hA, stream, hm, hio] using this
      | valueError =>
        have := itemsOf_valueError s n.data.view (by rw [hio])
        rw [hqs.1] at this; simp at this
      | ok its =>
        rw [hio] at hA
        obtain ⟨k, r, hk, hr⟩ := multi_run steps src s hm rest pre.length n hget ih' its stk
        have := start (resume stk, r) ⟨k, by rw [hA]; exact hk⟩
        rw [hA, hr] at this
        simpa [stream, hm, hio] using this
    cases s with
    | key k =>
      cases hso : singleOf J.view (.key k) n with
      | none =>
        have := start (resume stk, []) ⟨0, by simp [aAttempt, hget, hso, arun]⟩
        simpa [aAttempt, hget, hso, stream, Step.cls] using this
      | some n' =>
        obtain ⟨k1, h1⟩ := ih' n' stk
        have := start (resume stk, stream rest (pre.length + 1) n') ⟨k1, by simpa [aAttempt, hget, hso] using h1⟩
        simpa [aAttempt, hget, hso, stream, Step.cls] using this
    | idx i =>
      cases hso : singleOf J.view (.idx i) n with
      | none =>
        have := start (resume stk, []) ⟨0, by simp [aAttempt, hget, hso, arun]⟩
        simpa [aAttempt, hget, hso, stream, Step.cls] using this
      | some n' =>
        obtain ⟨k1, h1⟩ := ih' n' stk
        have := start (resume stk, stream rest (pre.length + 1) n') ⟨k1, by simpa [aAttempt, hget, hso] using h1⟩
        simpa [aAttempt, hget, hso, stream, Step.cls] using this
    | parent =>
      cases hso : singleOf J.view .parent n with
      | none =>
        have := start (resume stk, []) ⟨0, by simp [aAttempt, hget, hso, arun]⟩
        simpa [aAttempt, hget, hso, stream, Step.cls] using this
      | some n' =>
        obtain ⟨k1, h1⟩ := ih' n' stk
        have := start (resume stk, stream rest (pre.length + 1) n') ⟨k1, by simpa [aAttempt, hget, hso] using h1⟩
        simpa [aAttempt, hget, hso, stream, Step.cls] using this
    | filter f =>
      obtain ⟨j, hj⟩ := hqs.2 f rfl n
      by_cases ht : j.truthy = true
      · obtain ⟨k1, h1⟩ := ih' (.imag n) stk
        have := start (resume stk, stream rest (pre.length + 1) (.imag n)) ⟨k1, by simpa [aAttempt, hget, hj, ht] using h1⟩
        simpa [aAttempt, hget, hj, ht, stream, Step.cls, List.append_assoc] using this
      · have := start (resume stk, []) ⟨0, by simp [aAttempt, hget, hj, ht, arun]⟩
        simpa [aAttempt, hget, hj, ht, stream, Step.cls] using this
    | recur =>
      have hlast : (pre.length + 1 = steps.size) ↔ rest = [] := by
        constructor
        · intro h; have : rest.length = 0 := by omega
          exact List.length_eq_zero_iff.mp this
        · intro h; subst h; simp at hsz; omega
      cases hc : allItems n.data.view with
      | none =>
        have hnc : n.data.isContainer = false := by
          have := allItems_isContainer n.data; rw [hc] at this; simpa using this.symm
        have := start (resume stk, []) ⟨0, by simp [aAttempt, hget, hc, arun]⟩
        simpa [aAttempt, hget, hc, stream, Step.cls, hnc] using this
      | some its =>
        have hnc : n.data.isContainer = true := by
          have := allItems_isContainer n.data; rw [hc] at this; simpa using this.symm
        obtain ⟨k1, h1⟩ := ih' (.imag n) (⟨n, pre.length, its⟩ :: stk)
        obtain ⟨k2, h2⟩ := rec_items_run steps src (fun m => stream rest (pre.length+1) m) rest.isEmpty pre.length n hget its stk
          (fun nm x tl _ => rec_child_run steps src rest pre.length hget hlast ih' (J.sz x) x (Nat.le_refl _) n nm tl stk)
        have hrun : ∃ k, run k (aAttempt J.view steps n pre.length stk).1 =
            (resume stk, stream rest (pre.length+1) (.imag n) ++
              (recItems (fun m => stream rest (pre.length+1) m) rest.isEmpty pre.length n its ++ [Ev.attempt n (pre.length+1) none none])) := by
          refine ⟨k1 + k2, ?_⟩
          simp only [aAttempt, hget, hc]
          rw [arun_add, h1]
          have hr : resume (⟨n, pre.length, its⟩ :: stk) = AS.parked (⟨n, pre.length, its⟩ :: stk) := rfl
          simp only [hr, h2]
        have := start (resume stk, _) hrun
        simpa [aAttempt, hget, hc, stream, Step.cls, hnc, recBody_items _ _ _ _ _ its hc, List.append_assoc] using this
    | slice a b c => simp [Step.cls] at hm
    | tuple ns => simp [Step.cls] at hm
    | keyWc => simp [Step.cls] at hm
    | idxWc => simp [Step.cls] at hm
    | gwc => simp [Step.cls] at hm

end
end Treepath
