import Treepath.Proofs.Bisim
import Treepath.Proofs.StreamEval
import Treepath.Model.Api
/-
From single actions to the iterator protocol: `next()` is a segment of the action run ending
at the next result / `StopIteration`; the results yielded by `k` calls of `next()` are the
first `k` results of the specification; an exhausted iterator has yielded all of them.
-/
namespace Treepath
variable {α : Type}

section
variable (view : α → View α) (steps : Array (Step α)) (src : Src α)

/-- run `k` actions of the heap machine, collecting events (signals ignored) -/
def hrun : Nat → St α → St α × List (Ev α)
  | 0, s => (s, [])
  | k+1, s =>
    let r := action view steps src s
    let r' := hrun k r.1
    (r'.1, r.2.1 ++ r'.2)

theorem hrun_add (a b : Nat) (s : St α) :
    hrun view steps src (a + b) s =
      ((hrun view steps src b (hrun view steps src a s).1).1,
       (hrun view steps src a s).2 ++ (hrun view steps src b (hrun view steps src a s).1).2) := by
  induction a generalizing s with
  | zero => simp [hrun]
  | succ a ih =>
    have : a + 1 + b = (a + b) + 1 := by omega
    rw [this]
    simp only [hrun]
    rw [ih]
    simp [List.append_assoc]

/-- the heap machine and the stack machine emit the same events, run for run -/
theorem hrun_bisim (k : Nat) (st : St α) (as : AS α) (hR : R steps st as) :
    R steps (hrun view steps src k st).1 (arun view steps src k as).1 ∧
    (hrun view steps src k st).2 = (arun view steps src k as).2 := by
  induction k generalizing st as with
  | zero => exact ⟨hR, rfl⟩
  | succ k ih =>
    obtain ⟨h1, h2⟩ := bisim steps view src st as hR
    obtain ⟨h3, h4⟩ := ih _ _ h1
    simp only [hrun, arun]
    refine ⟨h3, ?_⟩
    rw [h4]
    have : (action view steps src st).2.1 = (astep view steps src as).2.1 := by rw [h2]
    rw [this]

/-- an exhausted machine only says `stop` -/
theorem hrun_done (k : Nat) (st : St α) (h : st.act = .done) :
    hrun view steps src k st = (st, List.replicate k .stop) := by
  induction k with
  | zero => rfl
  | succ k ih => simp [hrun, action, h, ih, List.replicate_succ]


/-- events emitted by predicates are neither results, nor `stop`, nor raises of the outer
search (true of every has-family predicate, which strips them from the nested run) -/
def PredsClean : Prop :=
  ∀ s ∈ steps.toList, ∀ f, s = .filter f → ∀ n, ∀ e ∈ (f n).evs, e.isClean = true

theorem iterStep_evs (st : St α) (p : Nat) (tm : TM α) (vi : Nat) (its : List (Name × α)) (st' : St α)
    (q : Option Nat) (evs : List (Ev α)) (h : iterStep st p tm vi its = .ok st' q evs) : evs = [] := by
  cases its with
  | nil => simp [iterStep] at h; exact h.2.2
  | cons it tl => obtain ⟨nm, x⟩ := it; simp [iterStep] at h; exact h.2.2

theorem vmatch_ok_clean (hp : PredsClean steps) (st : St α) (p : Nat) (tm : TM α) (vi : Nat) (s : Step α)
    (hs : s ∈ steps.toList) (st' : St α) (q : Option Nat) (evs : List (Ev α))
    (h : vmatch view st p tm vi s = .ok st' q evs) : ∀ e ∈ evs, e.isClean = true := by
  have hm : ∀ s' : Step α, vmatchMulti view st p tm vi s' = .ok st' q evs → evs = [] := by
    intro s' h
    unfold vmatchMulti at h
    split at h
    · exact iterStep_evs _ _ _ _ _ _ _ _ h
    · split at h
      · simp at h; exact h.2.2
      · simp at h
      · exact iterStep_evs _ _ _ _ _ _ _ _ h
  have hsg : ∀ s', vmatchSingle view st p tm vi s' = .ok st' q evs → evs = [] := by
    intro s' h
    unfold vmatchSingle at h
    split at h <;> simp at h <;> exact h.2.2
  have nil_clean : evs = [] → ∀ e ∈ evs, e.isClean = true := by intro h e he; rw [h] at he; simp at he
  cases s with
  | filter f =>
    simp only [vmatch, vmatchFilter] at h
    have hc := hp (.filter f) hs f rfl tm.node
    split at h
    · split at h <;> simp at h <;> (
        intro e he
        rw [← h.2.2] at he
        simp only [List.mem_cons] at he
        rcases he with rfl | he
        · rfl
        · exact hc e he)
    · simp at h
  | recur =>
    apply nil_clean
    simp only [vmatch, vmatchRecur] at h
    split at h
    · split at h <;> simp at h <;> exact h.2.2
    · simp at h; exact h.2.2
    · split at h <;> simp at h <;> exact h.2.2
  | key k => exact nil_clean (hsg _ h)
  | idx i => exact nil_clean (hsg _ h)
  | parent => exact nil_clean (hsg _ h)
  | slice a b c => exact nil_clean (hm _ h)
  | tuple ns => exact nil_clean (hm _ h)
  | keyWc => exact nil_clean (hm _ h)
  | idxWc => exact nil_clean (hm _ h)
  | gwc => exact nil_clean (hm _ h)

/-- an action that produces no signal emits only clean events; a result action emits just
its result; the `done` action just `stop` -/
theorem action_events (hp : PredsClean steps) (st s1 : St α) (e1 : List (Ev α)) (sig : Sig α)
    (h : action view steps src st = (s1, e1, sig)) :
    (sig = .none → ∀ e ∈ e1, e.isClean = true) ∧ (∀ n, sig = .result n → e1 = [.result n]) ∧
    (sig = .stop → e1 = [.stop]) := by
  unfold action at h
  split at h
  · simp only [initAction, Prod.mk.injEq] at h
    obtain ⟨_, h2, h3⟩ := h; subst h2; subst h3
    exact ⟨by intro _ e he; simp at he, by intro n hn; simp at hn, by intro hn; simp at hn⟩
  · simp only [Prod.mk.injEq] at h
    obtain ⟨_, h2, h3⟩ := h; subst h2; subst h3
    exact ⟨by intro hn; simp at hn, by intro n hn; simp at hn, fun _ => rfl⟩
  · split at h
    · simp only [reportAction] at h
      split at h
      · simp only [Prod.mk.injEq] at h
        obtain ⟨_, h2, h3⟩ := h; subst h2; subst h3
        exact ⟨by intro hn; simp at hn, by intro n hn; simp only [Sig.result.injEq] at hn; rw [hn], by intro hn; simp at hn⟩
      · simp only [Prod.mk.injEq] at h
        obtain ⟨_, h2, h3⟩ := h; subst h2; subst h3
        exact ⟨by intro _ e he; simp at he, by intro n hn; simp at hn, by intro hn; simp at hn⟩
    · simp only [Prod.mk.injEq] at h
      obtain ⟨_, h2, h3⟩ := h; subst h2; subst h3
      exact ⟨by intro hn; simp at hn, by intro n hn; simp at hn, by intro hn; simp at hn⟩
  · split at h
    · simp only [catchAction, Prod.mk.injEq] at h
      obtain ⟨_, h2, h3⟩ := h; subst h2; subst h3
      exact ⟨by intro _ e he; simp at he, by intro n hn; simp at hn, by intro hn; simp at hn⟩
    · simp only [Prod.mk.injEq] at h
      obtain ⟨_, h2, h3⟩ := h; subst h2; subst h3
      exact ⟨by intro hn; simp at hn, by intro n hn; simp at hn, by intro hn; simp at hn⟩
  · split at h
    · simp only [matchAction] at h
      split at h
      · simp only [Prod.mk.injEq] at h
        obtain ⟨_, h2, h3⟩ := h; subst h2; subst h3
        exact ⟨by intro hn; simp at hn, by intro n hn; simp at hn, by intro hn; simp at hn⟩
      · rename_i s hget
        have hmem : s ∈ steps.toList := by
          obtain ⟨hi, hv⟩ := Array.getElem?_eq_some_iff.mp hget
          rw [← hv]; simp
        split at h
        · rename_i hv
          simp only [Prod.mk.injEq] at h
          obtain ⟨_, h2, h3⟩ := h
          obtain ⟨_, x, hx⟩ := vmatch_abort _ _ _ _ _ _ _ _ _ hv
          rw [hx] at h3; subst h3
          exact ⟨by intro hn; simp at hn, by intro n hn; simp at hn, by intro hn; simp at hn⟩
        · rename_i hv
          simp only [Prod.mk.injEq] at h
          obtain ⟨_, h2, h3⟩ := h; subst h2; subst h3
          have hc := vmatch_ok_clean view steps hp _ _ _ _ _ hmem _ _ _ hv
          refine ⟨?_, by intro n hn; simp at hn, by intro hn; simp at hn⟩
          intro _ e he
          simp only [List.mem_append, List.mem_singleton] at he
          rcases he with he | rfl
          · exact hc e he
          · rfl
        · rename_i hv
          split at h
          · simp only [Prod.mk.injEq] at h
            obtain ⟨_, h2, h3⟩ := h; subst h2; subst h3
            have hc := vmatch_ok_clean view steps hp _ _ _ _ _ hmem _ _ _ hv
            refine ⟨?_, by intro n hn; simp at hn, by intro hn; simp at hn⟩
            intro _ e he
            simp only [List.mem_append, List.mem_singleton] at he
            rcases he with he | rfl
            · exact hc e he
            · rfl
          · simp only [Prod.mk.injEq] at h
            obtain ⟨_, h2, h3⟩ := h; subst h2; subst h3
            exact ⟨by intro hn; simp at hn, by intro n hn; simp at hn, by intro hn; simp at hn⟩
    · simp only [Prod.mk.injEq] at h
      obtain ⟨_, h2, h3⟩ := h; subst h2; subst h3
      exact ⟨by intro hn; simp at hn, by intro n hn; simp at hn, by intro hn; simp at hn⟩

/-- **segmentation**: a `next()` that yields a result / `StopIteration` is a run of actions
whose events are clean up to that final result / `stop` -/
theorem next_segment (hp : PredsClean steps) (limit : Nat) (st st' : St α) (evs : List (Ev α)) (sig : Sig α)
    (h : next view steps src limit st = (st', evs, sig))
    (hsig : (∃ n, sig = .result n) ∨ sig = .stop) :
    ∃ j pre last, hrun view steps src j st = (st', evs) ∧ evs = pre ++ [last] ∧ (∀ e ∈ pre, e.isClean = true) ∧
      ((∃ n, sig = .result n ∧ last = .result n) ∨ (sig = .stop ∧ last = .stop)) := by
  induction limit generalizing st evs with
  | zero =>
    simp only [next, Prod.mk.injEq] at h
    rcases hsig with ⟨n, hn⟩ | hn <;> (rw [hn] at h; simp at h)
  | succ limit ih =>
    unfold next at h
    rcases ha : action view steps src st with ⟨s1, e1, sg⟩
    obtain ⟨hnone, hres, hstop⟩ := action_events view steps src hp st s1 e1 sg ha
    rw [ha] at h
    cases sg with
    | none =>
      simp only at h
      split at h
      · simp only [Prod.mk.injEq] at h
        rcases hsig with ⟨n, hn⟩ | hn <;> (rw [hn] at h; simp at h)
      · rcases hn : next view steps src limit s1 with ⟨s2, e2, sig2⟩
        rw [hn] at h
        simp only [Prod.mk.injEq] at h
        obtain ⟨h1, h2, h3⟩ := h
        subst h1; subst h3
        obtain ⟨j, pre, last, hj, hev, hcl, hl⟩ := ih s1 e2 hn
        refine ⟨j + 1, e1 ++ pre, last, ?_, ?_, ?_, hl⟩
        · simp only [hrun, ha, hj, ← h2]
        · rw [← h2, hev, List.append_assoc]
        · intro e he
          simp only [List.mem_append] at he
          rcases he with he | he
          · exact hnone rfl e he
          · exact hcl e he
    | result n =>
      simp only at h
      split at h
      · simp only [Prod.mk.injEq] at h
        rcases hsig with ⟨m, hm⟩ | hm <;> (rw [hm] at h; simp at h)
      · simp only [Prod.mk.injEq] at h
        obtain ⟨h1, h2, h3⟩ := h
        subst h1; subst h2; subst h3
        refine ⟨1, [], .result n, ?_, ?_, by simp, .inl ⟨n, rfl, rfl⟩⟩
        · simp [hrun, ha]
        · rw [hres n rfl]; rfl
    | stop =>
      simp only [Prod.mk.injEq] at h
      obtain ⟨h1, h2, h3⟩ := h
      subst h1; subst h2; subst h3
      refine ⟨1, [], .stop, ?_, ?_, by simp, .inr ⟨rfl, rfl⟩⟩
      · simp [hrun, ha]
      · rw [hstop rfl]; rfl
    | raised e =>
      simp only [Prod.mk.injEq] at h
      rcases hsig with ⟨m, hm⟩ | hm <;> (rw [hm] at h; simp at h)
    | bug m =>
      simp only [Prod.mk.injEq] at h
      rcases hsig with ⟨n, hn⟩ | hn <;> (rw [hn] at h; simp at h)

/-- `k` successful calls of `next()`: the results yielded, all events, the final state -/
inductive Yields (limit : Nat) : St α → List (MNode α) → List (Ev α) → St α → Prop where
  | nil (st : St α) : Yields limit st [] [] st
  | cons (st st1 st2 : St α) (evs : List (Ev α)) (n : MNode α) (rs : List (MNode α)) (E : List (Ev α)) :
      next view steps src limit st = (st1, evs, .result n) → Yields limit st1 rs E st2 →
      Yields limit st (n :: rs) (evs ++ E) st2

theorem resultsOf_clean (l : List (Ev α)) (h : ∀ e ∈ l, e.isClean = true) : resultsOf l = [] := by
  induction l with
  | nil => rfl
  | cons e l ih =>
    have he := h e (by simp)
    have := ih (fun x hx => h x (List.mem_cons_of_mem _ hx))
    cases e <;> simp [Ev.isClean] at he <;> simp [resultsOf, List.filterMap_cons] at this ⊢ <;> exact this

def Ev.isStop : Ev α → Bool
  | .stop => true
  | _ => false

/-- the calls form one run of actions; its results are what was yielded; no `stop` occurred -/
theorem yields_run (hp : PredsClean steps) (limit : Nat) (st st' : St α) (rs : List (MNode α)) (E : List (Ev α))
    (hy : Yields view steps src limit st rs E st') :
    ∃ j, hrun view steps src j st = (st', E) ∧ resultsOf E = rs ∧ ∀ e ∈ E, e.isStop = false := by
  induction hy with
  | nil st => exact ⟨0, rfl, rfl, by simp⟩
  | cons st st1 st2 evs n rs E hn _ ih =>
    obtain ⟨j2, h2, hr2, hs2⟩ := ih
    obtain ⟨j1, pre, last, h1, hev, hcl, hl⟩ := next_segment view steps src hp limit st st1 evs _ hn (.inl ⟨n, rfl⟩)
    have hlast : last = .result n := by
      rcases hl with ⟨m, hm, hl⟩ | ⟨hm, _⟩
      · simp only [Sig.result.injEq] at hm; rw [hl, hm]
      · simp at hm
    refine ⟨j1 + j2, ?_, ?_, ?_⟩
    · rw [hrun_add, h1, h2]
    · rw [resultsOf_append, hr2, hev, hlast, resultsOf_append, resultsOf_clean pre hcl]
      simp [resultsOf]
    · intro e he
      simp only [List.mem_append] at he
      rcases he with he | he
      · rw [hev, hlast] at he
        simp only [List.mem_append, List.mem_singleton] at he
        rcases he with he | rfl
        · have := hcl e he
          cases e <;> simp [Ev.isClean] at this <;> rfl
        · rfl
      · exact hs2 e he

end
/-! ### end to end on JSON trees -/

section
variable (steps : Array (Step J)) (src : Src J)

theorem R_done_act {st : St J} (h : R steps st .done) : st.act = .done := by
  cases h with
  | done hact => exact hact

/-- the whole action run of a fresh iterator over a quiet path emits exactly the
specification's stream and ends exhausted -/
theorem full_run (hq : Quiet steps.toList) :
    ∃ k stD, hrun J.view steps src (1 + k) freshIter = (stD, stream steps.toList 0 src.rootNode) ∧ stD.act = .done := by
  obtain ⟨k, hk⟩ := sim steps src steps.toList [] src.rootNode [] (by simp) hq
  have hinit : R steps (freshIter : St J) .init := .init _ rfl
  obtain ⟨hR, hev⟩ := hrun_bisim J.view steps src (1 + k) freshIter .init hinit
  have harun : arun J.view steps src (1 + k) .init = (.done, stream steps.toList 0 src.rootNode) := by
    rw [arun_add, arun_one]
    simp only [astep]
    have : ([] : List (Step J)).length = 0 := rfl
    rw [this] at hk
    rw [hk]
    simp [resume]
  rw [harun] at hR hev
  exact ⟨k, (hrun J.view steps src (1 + k) freshIter).1, Prod.ext rfl (by simpa using hev), R_done_act steps hR⟩

theorem predsSilent_of_clean (hp : PredsClean steps) : PredsSilent steps.toList := by
  intro s hs f hf n
  exact resultsOf_clean _ (hp s hs f hf n)

theorem resultsOf_replicate_stop (d : Nat) : resultsOf (List.replicate d (Ev.stop : Ev J)) = [] := by
  induction d with
  | zero => rfl
  | succ d ih => simp [List.replicate_succ, resultsOf, List.filterMap_cons] at ih ⊢

/-- **Lazy prefix**: the results yielded by any number of successful `next()` calls on a fresh
iterator are a prefix of the step-by-step definition's answer, in order -/
theorem yields_prefix (hq : Quiet steps.toList) (hp : PredsClean steps) (limit : Nat) (st' : St J)
    (rs : List (MNode J)) (E : List (Ev J))
    (hy : Yields J.view steps src limit freshIter rs E st') :
    ∃ rest, eval steps.toList src.rootNode = rs ++ rest := by
  obtain ⟨j, hj, hr, hns⟩ := yields_run J.view steps src hp limit _ _ _ _ hy
  obtain ⟨k, stD, hfull, hdone⟩ := full_run steps src hq
  have hres := results_stream steps.toList hq (predsSilent_of_clean steps hp) 0 src.rootNode
  by_cases hle : j ≤ 1 + k
  · have : 1 + k = j + (1 + k - j) := by omega
    rw [this, hrun_add, hj] at hfull
    simp only [Prod.mk.injEq] at hfull
    refine ⟨resultsOf (hrun J.view steps src (1 + k - j) st').2, ?_⟩
    rw [eval, ← hres, ← hfull.2, resultsOf_append, hr]
  · have : j = (1 + k) + (j - (1 + k)) := by omega
    rw [this, hrun_add, hfull, hrun_done _ _ _ _ _ hdone] at hj
    simp only [Prod.mk.injEq] at hj
    have hd : 0 < j - (1 + k) := by omega
    have hmem : (Ev.stop : Ev J) ∈ E := by
      rw [← hj.2]
      apply List.mem_append_right
      cases hx : j - (1 + k) with
      | zero => omega
      | succ x => simp [List.replicate_succ]
    have := hns _ hmem
    simp [Ev.isStop] at this

/-- **Laziness of the work done**: everything the first `k` successful `next()` calls did —
every match attempt, every user-predicate call — is a prefix of the specification's stream;
that prefix ends with the `k`-th result, so nothing beyond it has been evaluated -/
theorem yields_stream_prefix (hq : Quiet steps.toList) (hp : PredsClean steps) (limit : Nat) (st' : St J)
    (rs : List (MNode J)) (E : List (Ev J))
    (hy : Yields J.view steps src limit freshIter rs E st') :
    ∃ E2, stream steps.toList 0 src.rootNode = E ++ E2 := by
  obtain ⟨j, hj, hr, hns⟩ := yields_run J.view steps src hp limit _ _ _ _ hy
  obtain ⟨k, stD, hfull, hdone⟩ := full_run steps src hq
  by_cases hle : j ≤ 1 + k
  · have : 1 + k = j + (1 + k - j) := by omega
    rw [this, hrun_add, hj] at hfull
    simp only [Prod.mk.injEq] at hfull
    exact ⟨_, hfull.2.symm⟩
  · have : j = (1 + k) + (j - (1 + k)) := by omega
    rw [this, hrun_add, hfull, hrun_done _ _ _ _ _ hdone] at hj
    simp only [Prod.mk.injEq] at hj
    have hmem : (Ev.stop : Ev J) ∈ E := by
      rw [← hj.2]
      apply List.mem_append_right
      cases hx : j - (1 + k) with
      | zero => omega
      | succ x => simp [List.replicate_succ]
    have := hns _ hmem
    simp [Ev.isStop] at this

/-- a path of child steps, recursive steps and parent steps (no filters, no zero slice step)
is quiet and has clean predicates — vacuously -/
theorem quiet_of_filterFree (ss : List (Step J)) (h : ∀ s ∈ ss, s.supported = true ∧ ∀ f, s ≠ .filter f) :
    Quiet ss := by
  intro s hs
  exact ⟨(h s hs).1, fun f hf => absurd hf ((h s hs).2 f)⟩

theorem clean_of_filterFree (h : ∀ s ∈ steps.toList, ∀ f, s ≠ .filter f) : PredsClean steps := by
  intro s hs f hf
  exact absurd hf (h s hs f)

/-- **Exhaustion**: when `next()` raises `StopIteration`, everything the definition selects
has been yielded, exactly once, in order -/
theorem exhausted_all (hq : Quiet steps.toList) (hp : PredsClean steps) (limit : Nat) (st' st'' : St J)
    (rs : List (MNode J)) (E evs : List (Ev J))
    (hy : Yields J.view steps src limit freshIter rs E st')
    (hstop : next J.view steps src limit st' = (st'', evs, .stop)) :
    rs = eval steps.toList src.rootNode := by
  obtain ⟨j, hj, hr, _⟩ := yields_run J.view steps src hp limit _ _ _ _ hy
  obtain ⟨j2, pre, last, h2, hev, hcl, hl⟩ := next_segment J.view steps src hp limit st' st'' evs _ hstop (.inr rfl)
  have hlast : last = .stop := by
    rcases hl with ⟨m, hm, _⟩ | ⟨_, hl⟩
    · simp at hm
    · exact hl
  have hact : st''.act = .done := next_stop_done J.view steps src limit st' st'' evs hstop
  obtain ⟨k, stD, hfull, hdone⟩ := full_run steps src hq
  have hres := results_stream steps.toList hq (predsSilent_of_clean steps hp) 0 src.rootNode
  have htot : hrun J.view steps src (j + j2) freshIter = (st'', E ++ evs) := by rw [hrun_add, hj, h2]
  have hrE : resultsOf (E ++ evs) = rs := by
    rw [resultsOf_append, hr, hev, hlast, resultsOf_append, resultsOf_clean pre hcl]
    simp [resultsOf]
  rw [eval, ← hres]
  by_cases hle : j + j2 ≤ 1 + k
  · have : 1 + k = (j + j2) + (1 + k - (j + j2)) := by omega
    rw [this, hrun_add, htot, hrun_done _ _ _ _ _ hact] at hfull
    simp only [Prod.mk.injEq] at hfull
    rw [← hfull.2, resultsOf_append, hrE, resultsOf_replicate_stop]
    simp
  · have : j + j2 = (1 + k) + (j + j2 - (1 + k)) := by omega
    rw [this, hrun_add, hfull, hrun_done _ _ _ _ _ hdone] at htot
    simp only [Prod.mk.injEq] at htot
    rw [← hrE, ← htot.2, resultsOf_append, resultsOf_replicate_stop]
    simp

end
end Treepath
