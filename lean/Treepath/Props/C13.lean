import Treepath.Proofs.Drive
import Treepath.Proofs.EvalLemmas
import Treepath.Proofs.NodeLemmas
/- C13 — parent steps climb the document tree -/
namespace Treepath.C13
variable {α : Type}

/-- `loc` is defined without reference to `remParent`; a parent step moves from a node to the
node whose location is one shorter — no matter how the node was reached (`child`, `imag`
after filters / recursion / nested roots, `par` after earlier climbs) — and selects nothing
exactly at the root location. -/
theorem remParent_loc (n t : MNode α) (h : n.remParent = some t) : t.loc = n.loc.dropLast := by
  induction n with
  | root d => simp [MNode.remParent] at h
  | child p nm d _ => simp [MNode.remParent] at h; subst h; simp [MNode.loc]
  | imag p ih => simpa using ih h
  | par r f ihr _ => simpa [MNode.remParent, MNode.loc] using ihr h

theorem remParent_none_iff (n : MNode α) : n.remParent = none ↔ n.loc = [] := by
  induction n with
  | root d => simp [MNode.remParent, MNode.loc]
  | child p nm d _ => simp [MNode.remParent, MNode.loc]
  | imag p ih => simpa using ih
  | par r f ihr _ => simpa [MNode.remParent, MNode.loc] using ihr

/-- the parent step itself -/
theorem parent_step (n : MNode J) :
    evalStep .parent n = ((n.remParent.map fun t => MNode.par t n).toList, none) := by
  simp [evalStep, Step.cls, singleOf]

/-- the node reached by a parent step sits at the dropped-last location and carries the
data and name of the containing node -/
theorem parent_result (n t : MNode J) (h : n.remParent = some t) :
    (MNode.par t n).loc = n.loc.dropLast ∧ (MNode.par t n).data = t.data ∧
    (MNode.par t n).dataName = t.dataName := by
  refine ⟨?_, rfl, rfl⟩
  simpa [MNode.loc] using remParent_loc n t h

/-- `n` consecutive parent steps climb `n` levels or select nothing -/
theorem climb_n (k : Nat) (n : MNode J) :
    ∀ m ∈ eval (List.replicate k .parent) n, m.loc = n.loc.take (n.loc.length - k) := by
  induction k generalizing n with
  | zero => intro m hm; simp [eval, evalE] at hm; subst hm; simp
  | succ k ih =>
    intro m hm
    simp only [List.replicate_succ, eval] at hm
    rw [evalE_cons_bind _ _ _ (by rfl), parent_step] at hm
    cases hr : n.remParent with
    | none => simp [hr, bindRes, seqFlat, Res.append] at hm
    | some t =>
      simp only [hr, Option.map_some, Option.toList_some, bindRes_pure] at hm
      have := ih (MNode.par t n) m hm
      have hl : (MNode.par t n).loc = n.loc.dropLast := (parent_result n t hr).1
      rw [this, hl]
      simp [List.dropLast_eq_take, List.take_take]
      omega

/-- `p.<child>.parent` revisits the node: a child selected by a key / index step has that
node as its document parent -/
theorem child_then_parent (n : MNode J) (nm : Name) (d : J) :
    evalStep .parent (.child n nm d) = ([.par n (.child n nm d)], none) := by
  simp [evalStep, Step.cls, singleOf, MNode.remParent]

/-- the traverser's parent steps are the definition's: for paths with parent steps in any
position (no raising predicates) the machine yields `eval steps root`, whose parent steps
climb by `remParent` -/
theorem machine_climbs (steps : Array (Step J)) (src : Src J) (hq : Quiet steps.toList) (hp : PredsClean steps)
    (limit : Nat) (st' st'' : St J) (rs : List (MNode J)) (E evs : List (Ev J))
    (hy : Yields J.view steps src limit freshIter rs E st')
    (hstop : next J.view steps src limit st' = (st'', evs, .stop)) :
    rs = eval steps.toList src.rootNode :=
  exhausted_all steps src hq hp limit st' st'' rs E evs hy hstop

example : (eval [.key "a", .key "b", .parent, .key "k", .parent, .parent]
    (.root (.obj [("a", .obj [("b", .arr [.int 1]), ("k", .obj [])]), ("x", .int 5)]))).map MNode.pathStr
    = ["$.a.b<-a.k<-a<-$"] := by decide

end Treepath.C13
