import Treepath.Proofs.DriveX
import Treepath.Proofs.Drive
import Treepath.Model.Api
/- C05 — get, get_match and find are projections of find_matches -/
namespace Treepath.C05
variable {α : Type}

/-- `get_match` returns the first match `find_matches` yields -/
theorem getMatch_is_first (cx : Ctx α) (steps : Array (Step α)) (src : Src α) (mm : Bool) (n : MNode α)
    (h : getMatch cx steps src mm = .ok (some n)) (fuel : Nat) :
    (drain cx steps src (fuel+1) freshIter).1.head? = some n := by
  unfold getMatch at h
  unfold drain
  rcases hn : nextOut cx steps src freshIter with ⟨st', evs, out⟩
  rw [hn] at h
  cases out <;> simp_all
  all_goals (split at h <;> simp_all)

/-- when `find_matches` yields nothing, `get_match` raises `MatchNotFoundError`
(`NestedMatchNotFoundError` when searching from a Match) or returns `None` -/
theorem getMatch_none (cx : Ctx α) (steps : Array (Step α)) (src : Src α) (mm : Bool)
    (st' : St α) (evs : List (Ev α)) (h : nextOut cx steps src freshIter = (st', evs, .stopIteration)) :
    getMatch cx steps src mm =
      if mm then .error (if src.isNested then .nestedMatchNotFound else .matchNotFound) else .ok none := by
  simp [getMatch, h]

/-- `get` returns the data of the first match; the default is not consulted, whatever the
value found (falsy values count as found) -/
theorem get_found (cx : Ctx α) (steps : Array (Step α)) (src : Src α) (d : Default α) (n : MNode α)
    (st' : St α) (evs : List (Ev α)) (h : nextOut cx steps src freshIter = (st', evs, .item n)) :
    get cx steps src d = .ok (n.data, 0) := by
  simp [get, getMatch, h]

/-- nothing found: `MatchNotFoundError` without a default, the constant, or the callable
default called exactly once -/
theorem get_default (cx : Ctx α) (steps : Array (Step α)) (src : Src α)
    (st' : St α) (evs : List (Ev α)) (h : nextOut cx steps src freshIter = (st', evs, .stopIteration)) :
    get cx steps src .notSet = .error (if src.isNested then .nestedMatchNotFound else .matchNotFound) ∧
    (∀ v, get cx steps src (.const v) = .ok (v, 0)) ∧
    (∀ f, get cx steps src (.callable f) = .ok (f (), 1)) := by
  simp [get, getMatch, h]

/-- on JSON trees `get_match` returns the *first element of the definition's answer*, and
reports "not found" exactly when that answer is empty (quiet paths, budget not exhausted) -/
theorem getMatch_is_head_of_eval (steps : Array (Step J)) (src : Src J) (hq : Quiet steps.toList) (hp : PredsClean steps)
    (cx : Ctx J) (hv : cx.view = J.view) (st' : St J) (evs : List (Ev J)) :
    (∀ n, next cx.view steps src cx.limit freshIter = (st', evs, .result n) →
        (eval steps.toList src.rootNode).head? = some n) ∧
    (next cx.view steps src cx.limit freshIter = (st', evs, .stop) → eval steps.toList src.rootNode = []) := by
  rw [hv]
  constructor
  · intro n hn
    obtain ⟨rest, hr⟩ := yields_prefix steps src hq hp cx.limit st' [n] (evs ++ [])
      (.cons _ _ _ _ _ _ _ hn (.nil _))
    rw [hr]; rfl
  · intro hs
    exact (exhausted_all steps src hq hp cx.limit freshIter st' [] [] evs (.nil _) hs).symm

/-- the same for every path, predicates that raise included: the first `next()` of a fresh
iterator answers with the first result of the definition, says "not found" exactly when the
definition finishes empty-handed, and raises exactly the exception the definition raises
before producing anything -/
theorem getMatch_is_definition_any_predicate (steps : Array (Step J)) (src : Src J) (hp : PredsClean steps)
    (limit : Nat) (st' : St J) (evs : List (Ev J)) :
    (∀ n, next J.view steps src limit freshIter = (st', evs, .result n) →
        (evalE steps.toList src.rootNode).1.head? = some n) ∧
    (next J.view steps src limit freshIter = (st', evs, .stop) → evalE steps.toList src.rootNode = ([], none)) ∧
    (∀ x, x ≠ .loopDetected → next J.view steps src limit freshIter = (st', evs, .raised x) →
        evalE steps.toList src.rootNode = ([], some x)) := by
  refine ⟨?_, ?_, ?_⟩
  · intro n hn
    obtain ⟨rest, hr⟩ := yields_prefix_x steps src hp limit st' [n] (evs ++ [])
      (.cons _ _ _ _ _ _ _ hn (.nil _))
    rw [hr]; rfl
  · intro hs
    exact exhausted_all_x steps src hp limit freshIter st' [] [] evs (.nil _) hs
  · intro x hx hr
    exact raises_x steps src hp limit freshIter st' [] [] evs x (.nil _) hr hx

/-- what `get` answers when the definition's answer is `ans` -/
def getOf (isNested : Bool) (d : Default J) (ans : List (MNode J)) : Except ApiErr (J × Nat) :=
  match ans.head? with
  | some n => .ok (n.data, 0)
  | none =>
    match d with
    | .notSet => .error (if isNested then .nestedMatchNotFound else .matchNotFound)
    | .const v => .ok (v, 0)
    | .callable f => .ok (f (), 1)

/-- **`get` is a projection of the definition** — one equation, end to end: whenever the first
`next()` of the underlying iterator comes back with a result or with `StopIteration` (quiet
paths on JSON trees within the step budget always do), `get(expr, data, default)` is the data
of the head of the definition's answer, and the default (constant, or callable called exactly
once, or `MatchNotFoundError` / `NestedMatchNotFoundError`) exactly when that answer is empty —
whatever the value found: a falsy first result never falls through to the default -/
theorem get_is_projection_of_definition (steps : Array (Step J)) (src : Src J) (hq : Quiet steps.toList)
    (hp : PredsClean steps) (cx : Ctx J) (hv : cx.view = J.view) (d : Default J)
    (st' : St J) (evs : List (Ev J)) (sig : Sig J)
    (hn : next cx.view steps src cx.limit freshIter = (st', evs, sig))
    (hs : sig = .stop ∨ ∃ n, sig = .result n) :
    get cx steps src d = getOf src.isNested d (eval steps.toList src.rootNode) := by
  have H := getMatch_is_head_of_eval steps src hq hp cx hv st' evs
  rcases hs with rfl | ⟨n, rfl⟩
  · have he := H.2 hn
    rw [he]
    cases d <;> simp [get, getMatch, nextOut, hn, getOf]
  · have he := H.1 n hn
    cases d <;> simp [get, getMatch, nextOut, hn, getOf, he]

/-- the premises are met and the falsy case is real: `get(path.a, {"a": 0}, default=7)` is `0` -/
example : getOf false (.const (.int 7)) [MNode.child (.root (.obj [("a", .int 0)])) (.key "a") (.int 0)]
    = .ok (.int 0, 0) := rfl

end Treepath.C05
