import Treepath.Proofs.Drive
import Treepath.Proofs.EvalLemmas
import Treepath.Proofs.NodeLemmas
import Treepath.Proofs.DriveX
/- C03 — a filter keeps exactly the candidates its predicate accepts -/
namespace Treepath.C03

/-- a filter step keeps the candidate iff the predicate's value is truthy — only truthiness
matters — and what it keeps is the unchanged candidate (behind a bookkeeping node) -/
theorem filter_keeps (f : Pred J) (n : MNode J) (j : J) (h : (f n).res = .val j) :
    evalStep (.filter f) n = (if j.truthy then [MNode.imag n] else [], none) := by
  simp [evalStep, Step.cls, h]

/-- the kept candidate has the same location, value, name, parent and absolute path -/
theorem kept_is_unchanged (n : MNode J) :
    (MNode.imag n).erase = n.erase ∧ (MNode.imag n).data = n.data ∧ (MNode.imag n).dataName = n.dataName ∧
    (MNode.imag n).parent = n.parent ∧ (MNode.imag n).pathStr = n.pathStr := by
  simp

/-- an exception raised by the predicate surfaces as `TraversingError` caused by it: it is
neither swallowed nor turned into a silent non-match -/
theorem filter_raise (f : Pred J) (n : MNode J) (e : Exc) (h : (f n).res = .raise e) :
    evalStep (.filter f) n = ([], some (.traversing e)) := by
  simp [evalStep, Step.cls, h]

/-- `q[f]` followed by `t`: exactly the matches of `q` accepted by `f`, in the same order,
each continued by `t` (for predicates that do not raise and a `q` whose last step is the
filter's immediate context; the general `q` is obtained by `flatMap` over `eval q`). -/
theorem filter_then (f : Pred J) (t : List (Step J)) (n : MNode J) (j : J) (h : (f n).res = .val j) :
    evalE (.filter f :: t) n = if j.truthy then evalE t (.imag n) else ([], none) := by
  simp only [evalE, filter_keeps f n j h]
  by_cases ht : j.truthy <;> simp [ht, seqFlat_single, seqFlat]

/-- one call per candidate, in candidate order, with the candidate itself as argument: the
event stream of a filter step starts with `predCall n` -/
theorem filter_calls_once (f : Pred J) (t : List (Step J)) (vi : Nat) (n : MNode J) :
    ∃ tail, stream (.filter f :: t) vi n = .predCall n :: (f n).evs ++ tail := by
  simp only [stream, Step.cls]
  exact ⟨_, rfl⟩

/-- **the traverser applies filters as the definition says.**  For every document and every
path over the full step grammar whose predicates are arbitrary functions of the candidate
that do not raise (returning any object: only truthiness is used) and whose own events are
clean (true of every has-family predicate), the machine driven to `StopIteration` yields
exactly `eval steps root`. -/
theorem machine_filters (steps : Array (Step J)) (src : Src J) (hq : Quiet steps.toList) (hp : PredsClean steps)
    (limit : Nat) (st' st'' : St J) (rs : List (MNode J)) (E evs : List (Ev J))
    (hy : Yields J.view steps src limit freshIter rs E st')
    (hstop : next J.view steps src limit st' = (st'', evs, .stop)) :
    rs = eval steps.toList src.rootNode :=
  exhausted_all steps src hq hp limit st' st'' rs E evs hy hstop

/-- **call log.**  The complete action run of the machine emits exactly the specification's
stream — in which each filter position contributes `predCall c` once per candidate, in
candidate order (`filter_calls_once`) — and then the machine is exhausted. -/
theorem machine_call_log (steps : Array (Step J)) (src : Src J) (hq : Quiet steps.toList) :
    ∃ k stD, hrun J.view steps src (1 + k) freshIter = (stD, stream steps.toList 0 src.rootNode) ∧ stD.act = .done :=
  full_run steps src hq

/-- a raising predicate: `next()` raises `TraversingError` caused by the predicate's
exception and the traverser is left exactly as it was before the action (so the exception
is neither swallowed nor turned into a non-match; calling `next()` again raises again) -/
theorem raise_surfaces {α} (view : α → View α) (st : St α) (c : Nat) (tm : TM α) (vi : Nat) (f : Pred α) (e : Exc)
    (h : (f tm.node).res = .raise e) :
    vmatch view st c tm vi (.filter f) =
      .abort st (.raised (.traversing e)) (.predCall tm.node :: (f tm.node).evs ++ [.raised (.traversing e)]) := by
  simp [vmatch, vmatchFilter, h]

/-- **end to end, for every path and every predicate** (no `Quiet` premise: predicates may
raise on any candidate; their own trace events are clean, as those of the has-family are):
when the traverser says `StopIteration`, the definition finished without an exception and its
answer is exactly what was yielded -/
theorem machine_filters_any_predicate (steps : Array (Step J)) (src : Src J) (hp : PredsClean steps)
    (limit : Nat) (st' st'' : St J) (rs : List (MNode J)) (E evs : List (Ev J))
    (hy : Yields J.view steps src limit freshIter rs E st')
    (hstop : next J.view steps src limit st' = (st'', evs, .stop)) :
    evalE steps.toList src.rootNode = (rs, none) :=
  exhausted_all_x steps src hp limit st' st'' rs E evs hy hstop

/-- **a predicate's exception is never swallowed and never a silent non-match**: if `next()`
raises `x` (anything but the loop budget), the definition yields exactly the results already
delivered and then fails with exactly `x` — `TraversingError` wrapping the predicate's
exception, one link per enclosing filter (`Exc.traversing` nests), or the bare `ValueError`
of a zero slice step -/
theorem machine_raise_is_definition_raise (steps : Array (Step J)) (src : Src J) (hp : PredsClean steps)
    (limit : Nat) (st' st'' : St J) (rs : List (MNode J)) (E evs : List (Ev J)) (x : Exc)
    (hy : Yields J.view steps src limit freshIter rs E st')
    (hraise : next J.view steps src limit st' = (st'', evs, .raised x)) (hx : x ≠ .loopDetected) :
    evalE steps.toList src.rootNode = (rs, some x) :=
  raises_x steps src hp limit st' st'' rs E evs x hy hraise hx

/-- … and while no call has failed, what was yielded is a prefix of what the definition
produces before its first exception -/
theorem machine_prefix_any_predicate (steps : Array (Step J)) (src : Src J) (hp : PredsClean steps)
    (limit : Nat) (st' : St J) (rs : List (MNode J)) (E : List (Ev J))
    (hy : Yields J.view steps src limit freshIter rs E st') :
    ∃ rest, (evalE steps.toList src.rootNode).1 = rs ++ rest :=
  yields_prefix_x steps src hp limit st' rs E hy

/-- the specification stream and the definition agree, exceptions included -/
theorem stream_is_definition (p : List (Step J)) (hp : PredsClean p.toArray) (n : MNode J) :
    (resultsOf (takeThroughRaise (stream p 0 n)), firstRaise (stream p 0 n)) = evalE p n :=
  cut_stream p hp 0 n

/-- non-vacuity: a predicate that raises on the second candidate -/
example :
    let r := evalE [.keyWc, .filter (fun n => ⟨[], match n.data with | .int 1 => .raise (.user "Boom") | _ => .val (.bool true)⟩)]
      (.root (.obj [("a", .int 0), ("b", .int 1), ("c", .int 2)]))
    r.1.map MNode.pathStr = ["$.a"] ∧ r.2 = some (.traversing (.user "Boom")) := by decide

example :
    (eval [.keyWc, .filter (fun n => ⟨[], .val (match n.data with | .int 0 => .str "" | _ => .arr [.int 0])⟩)]
      (.root (.obj [("a", .int 0), ("b", .int 1)]))).map MNode.pathStr = ["$.b"] := by decide

end Treepath.C03
