import Treepath.Proofs.ErrorLemmas
import Treepath.Proofs.MutateLemmas
import Treepath.Model.Builder
import Treepath.Generated.ExcMro
import Treepath.Proofs.LastStep
/- C16 — only the documented errors escape, and they can be printed -/
namespace Treepath.C16
variable {α : Type}

/-- an exception leaving `next()` (hence `find` / `find_matches` iterators) on a path of
supported steps is `TraversingError` wrapping the predicate's exception, or
`InfiniteLoopDetected` -/
theorem next_only_documented (view : α → View α) (steps : Array (Step α)) (src : Src α)
    (hsup : ∀ s ∈ steps.toList, s.supported = true) (limit : Nat) (st st' : St α) (evs : List (Ev α)) (e : Exc)
    (h : next view steps src limit st = (st', evs, .raised e)) : e.documented = true :=
  next_raised_documented view steps src hsup limit st st' evs e h

/-- `get_match` / `get` fail only with MatchNotFoundError (NestedMatchNotFoundError from a
Match) or a documented traversal error -/
theorem getMatch_only_documented (cx : Ctx α) (steps : Array (Step α)) (src : Src α) (mm : Bool)
    (hsup : ∀ s ∈ steps.toList, s.supported = true) (e : ApiErr) (h : getMatch cx steps src mm = .error e) :
    e = .matchNotFound ∨ e = .nestedMatchNotFound ∨ (∃ x, e = .exc x ∧ x.documented = true) ∨ (∃ m, e = .bug m) := by
  unfold getMatch nextOut at h
  rcases hn : next cx.view steps src cx.limit freshIter with ⟨st', evs, sig⟩
  rw [hn] at h
  cases sig with
  | result n => simp at h
  | stop =>
    simp only at h
    split at h
    · simp only [Except.error.injEq] at h
      cases hs : src.isNested <;> simp [hs] at h <;> simp [← h]
    · simp at h
  | raised x =>
    simp only [Except.error.injEq] at h
    exact .inr (.inr (.inl ⟨x, h.symm, next_raised_documented cx.view steps src hsup _ _ _ _ _ hn⟩))
  | none => simp only [Except.error.injEq] at h; exact .inr (.inr (.inr ⟨_, h.symm⟩))
  | bug m => simp only [Except.error.injEq] at h; exact .inr (.inr (.inr ⟨_, h.symm⟩))

/-- `vertex.set` fails only with SetError — key on a list, index on a dict, index out of
range, any other last step, scalar parent; never with a Python error -/
theorem vertexSet_only_setError (h : Heap) (s : Step Val) (pm : MNode Val) (v : Val) (e : ApiErr)
    (he : vertexSet h s pm v = .error e) : e = .setError := by
  unfold vertexSet at he
  split at he
  · split at he <;> simp at he <;> exact he.symm
  · split at he
    · split at he
      · simp at he
      · split at he <;> simp at he <;> exact he.symm
    · simp at he; exact he.symm
  · simp at he; exact he.symm

/-- **`set_` / `set_match` fail only with SetError or a documented traversal error** — for every
path length, with and without cascade (the recursion of the cascade included): a missing
parent is SetError (or is created), whatever the parent search raises is TraversingError /
InfiniteLoopDetected, the last vertex refuses with SetError.  (`bug` marks branches the model
keeps for totality: a path shorter than its own length, `must_match` returning nothing.) -/
theorem setMatch_only_documented (stepsOf : Heap → List (Step Val)) (src : Src Val)
    (hsup : ∀ h0, ∀ s ∈ stepsOf h0, s.supported = true) :
    ∀ (n : Nat) (cascade : Bool) (h h' : Heap) (v : Val) (e : ApiErr),
      setMatchN stepsOf src cascade n h v = (h', .error e) →
      e = .setError ∨ (∃ x, e = .exc x ∧ x.documented = true) ∨ (∃ m, e = .bug m) := by
  intro n
  induction n with
  | zero =>
    intro cascade h h' v e he
    simp only [setMatchN, Prod.mk.injEq, Except.error.injEq] at he
    exact .inl he.2.symm
  | succ n ih =>
    intro cascade h h' v e he
    simp only [setMatchN] at he
    split at he
    · simp only [Prod.mk.injEq, Except.error.injEq] at he
      exact .inr (.inr ⟨_, he.2.symm⟩)
    · rename_i last _
      split at he
      · rename_i pm _
        split at he
        · simp at he
        · rename_i e1 hv
          simp only [Prod.mk.injEq, Except.error.injEq] at he
          rw [← he.2]
          exact .inl (vertexSet_only_setError h last pm v e1 hv)
      · simp only [Prod.mk.injEq, Except.error.injEq] at he
        exact .inr (.inr ⟨_, he.2.symm⟩)
      · rename_i e0 hg
        have hsup' : ∀ s ∈ ((stepsOf h).take n).toArray.toList, s.supported = true := by
          intro s hs
          exact hsup h s (List.mem_of_mem_take (by simpa using hs))
        have hdoc := getMatch_only_documented (wcx h) ((stepsOf h).take n).toArray src true hsup' e0 hg
        by_cases hnf : isNotFound e0 = true
        · simp only [hnf, if_true] at he
          by_cases hc : cascade = true
          · simp only [hc, if_true] at he
            split at he
            · rename_i h2 pm hrec
              split at he
              · simp at he
              · rename_i e1 hv
                simp only [Prod.mk.injEq, Except.error.injEq] at he
                rw [← he.2]
                exact .inl (vertexSet_only_setError h2 last pm v e1 hv)
            · rename_i h2 e1 hrec
              simp only [Prod.mk.injEq, Except.error.injEq] at he
              rw [← he.2]
              exact ih true _ h2 _ e1 hrec
          · simp only [hc] at he
            simp only [Bool.false_eq_true, if_false, Prod.mk.injEq, Except.error.injEq] at he
            exact .inl he.2.symm
        · simp only [hnf] at he
          simp only [Bool.false_eq_true, if_false, Prod.mk.injEq, Except.error.injEq] at he
          rw [← he.2]
          rcases hdoc with rfl | rfl | hx | hb
          · simp [isNotFound] at hnf
          · simp [isNotFound] at hnf
          · exact .inr (.inl hx)
          · exact .inr (.inr hb)

/-- `set_` / `set_match` aimed at the root: SetError (fix F3), with or without cascade -/
theorem set_root_is_setError (stepsOf : Heap → List (Step Val)) (src : Src Val) (cascade : Bool) (h : Heap) (v : Val)
    (hroot : stepsOf h = []) : (setMatch stepsOf src cascade h v).2 = .error .setError := by
  simp [setMatch, hroot, setMatchN]

/-- **`pop` / `pop_match` fail only with PopError, (Nested)MatchNotFoundError or a documented
traversal error** — on a store that unfolds to a tree: the `KeyError` / `IndexError` branches of
`vertex.pop` are dead, because the match `pop` has just found is a child named by the last step
that its parent's container still holds (`vertexPop_on_found`, through the specification:
`last_name_results`) -/
theorem popMatch_only_documented (stepsOf : Heap → List (Step Val)) (root : Val) (j : J) (h h' : Heap)
    (hu : Unf h root j) (hwf : HeapWF h)
    (sb : Array (Step J)) (hsteps : LRel (StepRel (Unf h)) (stepsOf h) sb.toList) (hp : PredsClean sb)
    (hsup : ∀ s ∈ stepsOf h, s.supported = true) (mm : Bool) (e : ApiErr)
    (hpop : popMatch stepsOf (.doc root) mm h = (h', .error e)) :
    e = .popError ∨ e = .matchNotFound ∨ e = .nestedMatchNotFound ∨ (∃ x, e = .exc x ∧ x.documented = true) ∨
      (∃ m, e = .bug m) := by
  simp only [popMatch] at hpop
  split at hpop
  · simp at hpop
  · rename_i m hg
    split at hpop
    · simp at hpop
    · rename_i e1 hv
      simp only [Prod.mk.injEq, Except.error.injEq] at hpop
      rw [← hpop.2]
      have := vertexPop_on_found h root j hu hwf (stepsOf h).toArray sb (by simpa using hsteps) hp mm m hg e1
        (by simpa using hv)
      exact .inl this
  · rename_i e0 hg
    simp only [Prod.mk.injEq, Except.error.injEq] at hpop
    rw [← hpop.2]
    rcases getMatch_only_documented (wcx h) (stepsOf h).toArray (.doc root) mm (by simpa using hsup) e0 hg with
      h1 | h1 | h1 | h1
    · exact .inr (.inl h1)
    · exact .inr (.inr (.inl h1))
    · exact .inr (.inr (.inr (.inl h1)))
    · exact .inr (.inr (.inr (.inr h1)))

/-- `pop` / `pop_match` aimed at the root (or any match whose last step is not a key or
index): PopError -/
theorem pop_root_is_popError (h : Heap) (m : MNode Val) : vertexPop h none m = .error .popError := by
  simp [vertexPop]

/-- unsupported indices are rejected at construction with PathSyntaxError -/
theorem unsupported_index (st : VStore) (e : Expr) : getItem st e .other = .error .pathSyntax := rfl

theorem unsupported_tuple_member (st : VStore) (e : Expr) (items : List (Option Name)) (h : items.all Option.isSome = false) :
    getItem st e (.tuple items) = .error .pathSyntax := by
  simp [getItem, h]

/-- the exception hierarchy as found in the source (generated table): the not-found errors
are `LookupError`s, every library error is a `TreepathException`, and none of them is a
`KeyError`, `IndexError`, `TypeError` or `AttributeError` -/
theorem mro_facts :
    (∀ n ∈ ["MatchNotFoundError", "NestedMatchNotFoundError", "SetError", "PopError"],
        ∃ m, Generated.excMro.lookup n = some m ∧ "LookupError" ∈ m) ∧
    (∃ m, Generated.excMro.lookup "NestedMatchNotFoundError" = some m ∧ "MatchNotFoundError" ∈ m) ∧
    (∃ m, Generated.excMro.lookup "InfiniteLoopDetected" = some m ∧ "TraversingError" ∈ m) ∧
    (∃ m, Generated.excMro.lookup "StopTraversing" = some m ∧ "StopIteration" ∈ m) ∧
    (∀ p ∈ Generated.excMro, "TreepathException" ∈ p.2 ∧ "KeyError" ∉ p.2 ∧ "IndexError" ∉ p.2 ∧
        "TypeError" ∉ p.2 ∧ "AttributeError" ∉ p.2) := by
  decide

end Treepath.C16
