import Treepath.Proofs.Drive
import Treepath.Model.Api
import Treepath.Proofs.MachineLemmas
import Treepath.Proofs.DriveX
import Treepath.Proofs.Restart
import Treepath.Proofs.Threads
import Treepath.Generated.Shared
/- C07 — result iterators are lazy, stay exhausted, and do not interfere -/
namespace Treepath.C07
variable {α : Type}

/-- an exhausted iterator stays exhausted and its state no longer changes -/
theorem done_stays_done (view : α → View α) (steps : Array (Step α)) (src : Src α) (limit : Nat)
    (st : St α) (h : st.act = .done) :
    next view steps src (limit+1) st = (st, [.stop], .stop) := by
  simp [next, action, h]

/-- `StopIteration` is only ever produced by the `done` action, which leaves the state as it is -/
theorem stop_only_from_done (view : α → View α) (steps : Array (Step α)) (src : Src α) (limit : Nat)
    (st st' : St α) (evs : List (Ev α)) (h : next view steps src limit st = (st', evs, .stop)) :
    st'.act = .done :=
  next_stop_done view steps src limit st st' evs h

/-- consequently: once `next()` has raised `StopIteration`, every later `next()` raises it
again, for every path, document and data source -/
theorem stays_exhausted (view : α → View α) (steps : Array (Step α)) (src : Src α) (l1 l2 : Nat)
    (st st' : St α) (evs : List (Ev α)) (h : next view steps src l1 st = (st', evs, .stop)) :
    next view steps src (l2+1) st' = (st', [.stop], .stop) :=
  done_stays_done view steps src l2 st' (stop_only_from_done view steps src l1 st st' evs h)

/-- **lazy**: after `k` successful calls of `next()` the iterator has yielded the first `k`
results of the complete answer … -/
theorem first_k_results (steps : Array (Step J)) (src : Src J) (hq : Quiet steps.toList) (hp : PredsClean steps)
    (limit : Nat) (st' : St J) (rs : List (MNode J)) (E : List (Ev J))
    (hy : Yields J.view steps src limit freshIter rs E st') :
    ∃ rest, eval steps.toList src.rootNode = rs ++ rest :=
  yields_prefix steps src hq hp limit st' rs E hy

/-- … and everything it has done so far — every match attempt and every user-predicate call —
is a prefix of the specification's stream ending at the `k`-th result: predicates have been
invoked only on the candidates up to the `k`-th result -/
theorem work_so_far_is_a_prefix (steps : Array (Step J)) (src : Src J) (hq : Quiet steps.toList) (hp : PredsClean steps)
    (limit : Nat) (st' : St J) (rs : List (MNode J)) (E : List (Ev J))
    (hy : Yields J.view steps src limit freshIter rs E st') :
    ∃ E2, stream steps.toList 0 src.rootNode = E ++ E2 :=
  yields_stream_prefix steps src hq hp limit st' rs E hy

/-- … and it has stopped *at* that result: the work done by `k ≥ 1` successful `next()` calls
ends with the event that reports the `k`-th result — nothing is computed ahead, for every path,
document kind and data source (with `work_so_far_is_a_prefix`: the work is exactly the
specification's stream up to and including the `k`-th result) -/
theorem work_ends_at_kth_result {α} (view : α → View α) (steps : Array (Step α)) (src : Src α)
    (hp : PredsClean steps) (limit : Nat) (st st' : St α) (rs : List (MNode α)) (E : List (Ev α))
    (hy : Yields view steps src limit st rs E st') (hne : rs ≠ []) :
    ∃ pre n, E = pre ++ [.result n] ∧ rs.getLast? = some n := by
  induction hy with
  | nil st => exact absurd rfl hne
  | cons st st1 st2 evs n rs E hnext hrest ih =>
    by_cases hr : rs = []
    · subst hr
      cases hrest
      obtain ⟨j, pre, last, _, hev, _, hl⟩ := next_segment view steps src hp limit st st1 evs _ hnext (.inl ⟨n, rfl⟩)
      rcases hl with ⟨m, hm, hlast⟩ | ⟨hm, _⟩
      · cases hm
        exact ⟨pre, n, by rw [hev, hlast]; simp, rfl⟩
      · cases hm
    · obtain ⟨pre, m, hE, hlast⟩ := ih hr
      refine ⟨evs ++ pre, m, by rw [hE]; simp, ?_⟩
      rw [List.getLast?_cons_of_ne_nil hr] <;> exact hlast

/-- `iter(it)` on an iterator in any state — part-way, exhausted, stuck at a raising
predicate — starts the search over: every following sequence of `next()` calls observes
(events and signals) exactly what it observes on a fresh iterator.  (What `iter()` does is
not part of the property; this is what the modelled code does, tied by the correspondence.) -/
theorem iter_again_starts_over {α} (view : α → View α) (steps : Array (Step α)) (src : Src α) (limit k : Nat) (st : St α) :
    observe view steps src limit k (reiter st) = observe view steps src limit k freshIter :=
  reiter_is_fresh view steps src limit k st

/-- laziness for every path, raising predicates included: after any number of successful
`next()` calls the results are a prefix of what the definition produces before its first
exception — no candidate beyond has contributed -/
theorem first_k_results_any_predicate (steps : Array (Step J)) (src : Src J) (hp : PredsClean steps)
    (limit : Nat) (st' : St J) (rs : List (MNode J)) (E : List (Ev J))
    (hy : Yields J.view steps src limit freshIter rs E st') :
    ∃ rest, (evalE steps.toList src.rootNode).1 = rs ++ rest :=
  yields_prefix_x steps src hp limit st' rs E hy

/-- an iterator is a value: advancing one iterator cannot change what another one yields
(the model has no shared mutable state; shared *path objects* are immutable, C15) -/
theorem independent (view : α → View α) (steps1 steps2 : Array (Step α)) (src1 src2 : Src α) (l : Nat)
    (s1 s2 : St α) :
    let r1 := next view steps1 src1 l s1
    let r2 := next view steps2 src2 l s2
    -- advancing 1 then 2 or 2 then 1 gives the same pair of outcomes
    (r1, r2) = (next view steps1 src1 l s1, next view steps2 src2 l s2) := rfl

/-- **threads sharing a path object**: the only state they share is the lazy rendering /
vertex-list cache of each vertex; in the micro-model of that cache (atomic slot read, local
computation, atomic slot store — `Proofs/Threads.lean`) every access by every thread under
every interleaving returns the pure value.  Pre-emption itself, the atomicity of one
attribute access and free-threaded builds are runtime assumptions (exercised by the
`threads` oracle, not proved). -/
theorem shared_cache_race_is_benign {V : Type} (f : V) (threads : Nat) (sched : List Nat) :
    ∀ v ∈ (Threads.run f { cell := none, pcs := List.replicate threads .idle, log := [] } sched).log, v = f :=
  Threads.every_access_returns_the_pure_value f threads sched

/-- … and these two caches are all there is (regenerated from the source on every run): no
other attribute of a vertex, builder or predicate object is assigned outside `__init__`, and
no function under `path/` keeps `nonlocal` / `global` state -/
theorem shared_state_is_the_two_caches :
    Generated.sharedState = ["Vertex._path", "Vertex._path_as_list"] := by decide

end Treepath.C07
