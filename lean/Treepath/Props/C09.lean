import Treepath.Proofs.Cascade
import Treepath.Proofs.MutateLemmas
/- C09 — cascade creates the missing containers and only those -/
namespace Treepath.C09

/-- **Cascade frame.**  Whatever the outcome of `set_(p, v, doc, cascade=True)`:
no object is removed, at most one pre-existing object is written — the deepest container
that already existed, which receives the entry for the first missing level (or, when the
whole path exists, the leaf slot) — every other pre-existing object is untouched, and on
success the returned match holds `v` itself.  All other writes go to freshly created
containers. -/
theorem cascade_frame (stepsOf : Heap → List (Step Val)) (src : Src Val) (h h' : Heap) (v : Val)
    (r : Except ApiErr (MNode Val)) (hr : setMatch stepsOf src true h v = (h', r)) :
    h.size ≤ h'.size ∧ (∃ id0 : Nat, ∀ j : Nat, j < h.size → j ≠ id0 → h'[j]? = h[j]?) ∧
    (∀ m, r = .ok m → m.data = v) :=
  setMatchN_cascade_frame stepsOf src _ h h' v r hr

/-- the containers created for missing levels are an empty dict before a key step and an
empty list before an index step — fresh objects (new identity) — and nothing else of the
store is touched by their creation -/
theorem created_containers (h : Heap) (s : Step Val) :
    (∀ j : Nat, j < h.size → (defaultValueFor h s).1[j]? = h[j]?) ∧ h.size ≤ (defaultValueFor h s).1.size ∧
    (∀ id : Nat, (defaultValueFor h s).2 = .ref id → id = h.size ∧
       ((defaultValueFor h s).1[id]? = some (.dict []) ∨ (defaultValueFor h s).1[id]? = some (.list []))) :=
  defaultValueFor_spec h s

theorem dict_before_key (h : Heap) (k : String) :
    defaultValueFor h (.key k) = (h.push (.dict []), .ref h.size) := rfl

theorem list_before_index (h : Heap) (i : Int) :
    defaultValueFor h (.idx i) = (h.push (.list []), .ref h.size) := rfl

/-- a freshly created list can only be appended to: index 0 succeeds, any other index is
SetError -/
theorem new_list_only_appends (h : Heap) (i : Int) (pm : MNode Val) (v : Val) (id : Nat)
    (hd : pm.data = .ref id) (ho : h[id]? = some (.list [])) :
    vertexSet h (.idx i) pm v = if i = 0 then .ok (hput h id (.list [v]), .child pm (.idx i) v) else .error .setError := by
  by_cases hi : i = 0
  · subst hi; simp [vertexSet, hd, ho, listSet, normIndex]
  · have : normIndex 0 i = none := by
      unfold normIndex
      split
      · simp
      · split
        · omega
        · rfl
    simp [vertexSet, hd, ho, listSet, this, hi]

/-- a freshly created dict holds exactly the one entry the path names -/
theorem new_dict_one_entry (k : String) (v : Val) : dictSet [] k v = [(k, v)] := rfl

/-- an existing level of the wrong type is never overwritten to make room: SetError from
`vertex.set`, and that call leaves the store as it is -/
theorem wrong_type_not_overwritten (h : Heap) (k : String) (pm : MNode Val) (v : Val)
    (hd : ∀ id es, pm.data = .ref id → h[id]? ≠ some (.dict es)) :
    vertexSet h (.key k) pm v = .error .setError := by
  cases hpd : pm.data with
  | atom j => simp [vertexSet, hpd]
  | ref id =>
    cases ho : h[id]? with
    | none => simp [vertexSet, hpd, ho]
    | some o =>
      cases o with
      | dict es => exact absurd ho (hd id es hpd)
      | list xs => simp [vertexSet, hpd, ho]

/-- `get(p, doc, default=v, store_default=True)` on a missing path is the same cascade and
returns `v` -/
theorem store_default_is_cascade (stepsOf : Heap → List (Step Val)) (src : Src Val) (h : Heap) (v : Val)
    (hmiss : getMatch (wcx h) (stepsOf h).toArray src false = .ok none) :
    getStoreDefault stepsOf src v h =
      match setMatch stepsOf src true h v with
      | (h', .ok _) => (h', .ok v)
      | (h', .error e) => (h', .error e) := by
  simp only [getStoreDefault, hmiss]
  rcases setMatch stepsOf src true h v with ⟨h', r⟩
  cases r <;> rfl

/-- and on an existing path it stores nothing and returns what is there -/
theorem store_default_found (stepsOf : Heap → List (Step Val)) (src : Src Val) (h : Heap) (v : Val) (m : MNode Val)
    (hfound : getMatch (wcx h) (stepsOf h).toArray src false = .ok (some m)) :
    getStoreDefault stepsOf src v h = (h, .ok m.data) := by
  simp [getStoreDefault, hfound]

/-- **the written slot reads back** ("so that get(p, doc) is v afterwards", for the last step):
after any successful `vertex.set` — plain or at the end of a cascade — applying the same last
step to the same parent match in the new store finds the new match, which holds `v` itself -/
theorem written_slot_reads_back (h h' : Heap) (s : Step Val) (pm m : MNode Val) (v : Val)
    (hs : vertexSet h s pm v = .ok (h', m)) : singleOf (hview h') s pm = some m ∧ m.data = v := by
  refine ⟨vertexSet_reads_back h h' s pm m v hs, ?_⟩
  obtain ⟨_, _, _, hm, _, _⟩ := vertexSet_frame h h' s pm m v hs
  rw [hm]; rfl

/-! ### cascade as a function on the JSON tree -/

/-- **the whole statement, on the tree**: on a document that is a tree (`DocInv`), a successful
`set_(p, v, doc, cascade=True)` along a path `p` of keys and indices makes the document unfold to
`J.cascadeAt j p jv` — every level that exists reused, for each missing level (and only for
those) an empty dict before a key / an empty list before an index, `jv` stored at the end —
the returned match sits at `p` holding `v` itself, and the document is again such a tree
(`CascadeOut`: also what the store looks like for any value that shares nothing with it). -/
theorem cascade_is_the_tree_cascade (root : Val) (names : List Name) (h h' : Heap) (v : Val) (m : MNode Val) (j jv : J)
    (hi : DocInv h root j) (hv : UnfJ h jv v) (hvn : (fpJ h jv v).Nodup) (hfresh : ∀ x ∈ fpJ h jv v, x ∉ fpJ h j root)
    (hset : setMatch (fun _ => names.map nameStepV) (.doc root) true h v = (h', .ok m)) :
    ∃ j', J.cascadeAt j names jv = some j' ∧ CascadeOut root h h' j j' jv v m names := by
  simp only [setMatch, List.length_map] at hset
  have := cascade_refines root names names.length h h' v m j jv (Nat.le_refl _) hi hv hvn hfresh hset
  simpa using this

/-- **`get(p, doc)` is `v` afterwards** -/
theorem after_cascade_the_value_is_there (ns : List Name) (j j' v : J) (h : J.cascadeAt j ns v = some j') :
    walk J.view j' ns = some v :=
  cascadeAt_reads_back ns j j' v h

/-- when every level exists the cascade is the plain assignment (nothing is created) … -/
theorem cascade_reuses_what_exists (ns : List Name) (j : J) (nm : Name) (v c : J) (hw : walk J.view j ns = some c) :
    J.cascadeAt j (ns ++ [nm]) v = J.setAt j ns nm v :=
  cascade_snoc_found ns j nm v c hw

/-- … and when a level is missing, the missing levels are created down to an empty container
of the kind the last name needs, then the value is assigned in it -/
theorem cascade_creates_what_is_missing (ns : List Name) (j : J) (nm : Name) (v : J) (hne : ns ≠ [])
    (hw : walk J.view j ns = none) :
    J.cascadeAt j (ns ++ [nm]) v = (J.cascadeAt j ns (emptyFor nm)).bind (fun j1 => J.setAt j1 ns nm v) :=
  cascade_snoc_missing ns j nm v hne hw

/-- a newly created container holds exactly the one entry the path names; a new list can
only be appended to -/
theorem new_container_holds_one_entry (nm : Name) (v : J) :
    J.cascadeAt (emptyFor nm) [nm] v =
      match nm with
      | .key k => some (.obj [(k, v)])
      | .idx i => if i = 0 then some (.arr [v]) else none :=
  cascade_into_new_container nm v

/-- computed: `set_(path.a.b[0], 7, {"x": 1}, cascade=True)` -/
example : J.cascadeAt (.obj [("x", .int 1)]) [.key "a", .key "b", .idx 0] (.int 7)
    = some (.obj [("x", .int 1), ("a", .obj [("b", .arr [.int 7])])]) := by
  simp [J.cascadeAt, childAt, J.view, List.lookup, emptyFor, J.setName, J.putChild, kvsSet, normIndex]

end Treepath.C09
