import Treepath.Spec.Has
import Treepath.Model.Fns
import Treepath.Proofs.EvalLemmas
import Treepath.Proofs.HasRefine
import Treepath.Proofs.HasRefineX
import Treepath.Proofs.Work
import Treepath.Proofs.Budget
/- C04 — has, has_all, has_any, has_not: existential tests and boolean algebra -/
namespace Treepath.C04

/-- `has(p)` holds at a node iff `p`, evaluated relative to that node, selects at least one
value (and selecting raises nothing before the first one) -/
theorem has_exists (steps : List (Step J)) (c : MNode J) (h : (evalE steps (.imag c)).2 = none) :
    (hasS steps none [] c).res = .val (.bool (!(eval steps (.imag c)).isEmpty)) := by
  simp only [hasS, eval]
  rcases hr : evalE steps (.imag c) with ⟨ns, e⟩
  rw [hr] at h
  simp at h
  subst h
  cases ns <;> simp [firstSuccess, J.truthy, hasTest]

/-- functions are applied right-to-left: `f1(f2(x))` -/
theorem fns_right_to_left (f1 f2 : Fn) (x v w : J) (h2 : f2.run x = .ok v) (h1 : f1.run v = .ok w) :
    (applyFns (α := J) [f1, f2] x).2 = .ok w := by
  simp [applyFns, applyFnStep, h1, h2]

/-- the selected values are tried in selection order up to the first success -/
theorem first_success_head (test : J → List (Ev J) × Except Exc J) (n : MNode J) (ns : List (MNode J))
    (e : Option Exc) (evs : List (Ev J)) (v : J) (h : test n.data = (evs, .ok v)) (hv : v.truthy = true) :
    firstSuccess test (n :: ns) e = (evs, .val (.bool true)) := by
  simp [firstSuccess, h, hv]

theorem first_success_skip (test : J → List (Ev J) × Except Exc J) (n : MNode J) (ns : List (MNode J))
    (e : Option Exc) (evs : List (Ev J)) (v : J) (h : test n.data = (evs, .ok v)) (hv : v.truthy = false) :
    (firstSuccess test (n :: ns) e).2 = (firstSuccess test ns e).2 := by
  simp [firstSuccess, h, hv]

/-- `has_all()` is true, `has_any()` is false -/
theorem hasAll_nil (c : MNode J) : (hasAll ([] : List (Pred J)) c).res = .val (.bool true) := rfl
theorem hasAny_nil (c : MNode J) : (hasAny ([] : List (Pred J)) c).res = .val (.bool false) := rfl

/-- `has_all` is left-to-right short-circuit `and` -/
theorem hasAll_cons_falsy (p : Pred J) (ps : List (Pred J)) (c : MNode J) (j : J)
    (h : (p c).res = .val j) (hj : j.truthy = false) :
    hasAll (p :: ps) c = { evs := (p c).evs, res := .val (.bool false) } := by
  simp [hasAll, h, hj]

theorem hasAll_cons_truthy (p : Pred J) (ps : List (Pred J)) (c : MNode J) (j : J)
    (h : (p c).res = .val j) (hj : j.truthy = true) :
    (hasAll (p :: ps) c).res = (hasAll ps c).res := by
  simp [hasAll, h, hj]

/-- `has_any` is left-to-right short-circuit `or` -/
theorem hasAny_cons_truthy (p : Pred J) (ps : List (Pred J)) (c : MNode J) (j : J)
    (h : (p c).res = .val j) (hj : j.truthy = true) :
    hasAny (p :: ps) c = { evs := (p c).evs, res := .val (.bool true) } := by
  simp [hasAny, h, hj]

theorem hasAny_cons_falsy (p : Pred J) (ps : List (Pred J)) (c : MNode J) (j : J)
    (h : (p c).res = .val j) (hj : j.truthy = false) :
    (hasAny (p :: ps) c).res = (hasAny ps c).res := by
  simp [hasAny, h, hj]

/-- an argument that raises stops the evaluation: nothing to its right is evaluated -/
theorem hasAll_cons_raise (p : Pred J) (ps : List (Pred J)) (c : MNode J) (e : Exc)
    (h : (p c).res = .raise e) : hasAll (p :: ps) c = { evs := (p c).evs, res := .raise e } := by
  simp [hasAll, h]

theorem hasAny_cons_raise (p : Pred J) (ps : List (Pred J)) (c : MNode J) (e : Exc)
    (h : (p c).res = .raise e) : hasAny (p :: ps) c = { evs := (p c).evs, res := .raise e } := by
  simp [hasAny, h]

/-- `has_not` negates truthiness and lets exceptions through -/
theorem hasNot_val (p : Pred J) (c : MNode J) (j : J) (h : (p c).res = .val j) :
    (hasNot p c).res = .val (.bool (!j.truthy)) := by
  simp [hasNot, h]

/-- double negation is the identity on truthiness -/
theorem hasNot_hasNot (p : Pred J) (c : MNode J) (j : J) (h : (p c).res = .val j) :
    (hasNot (hasNot p) c).res = .val (.bool j.truthy) := by
  simp [hasNot, h, J.truthy]

example : (match (hasS [.idxWc] (some (cmpFn .gt (.int 1))) [⟨"neg", fnNeg⟩]
    (.root (.arr [.int 5, .int (-3)]))).res with | .val (.bool true) => true | _ => false) = true := by decide

/-- the JSON instance of the has-family's context (tree documents, real budget) -/
def cxJ : Ctx J := { view := J.view, toJ := id }

/-- **the traverser's `has` is the definition's `has`** (end to end, through the pointer
machine of the nested search): for every document, candidate, path of supported steps whose
own predicates return values, comparison operator and function chain, the predicate the
library builds returns what the existential first-success search over the definition's
answer returns — unless the nested search ran out of its action budget (`IsInfra`, which for
tree documents needs a step count above the budget; C20 bounds it). -/
theorem machine_has_is_definition (ss : List (Step J)) (hq : Quiet ss) (hp : PredsClean ss.toArray)
    (op : Option Fn) (fns : List Fn) (c : MNode J) :
    IsInfra (has cxJ ss op fns c).res ∨ (has cxJ ss op fns c).res = (hasS ss op fns c).res :=
  has_refines cxJ rfl rfl ss hq hp op fns c

/-- … **whatever the predicates inside the has-path do** (no premise on what they return:
they may raise on any candidate): value or exception, the library's `has` returns what the
definition's first-success search returns — an exception met while selecting surfaces after
exactly the values tried before it, never swallowed, never turned into "no match" -/
theorem machine_has_is_definition_any_predicate (ss : List (Step J)) (hp : PredsClean ss.toArray)
    (op : Option Fn) (fns : List Fn) (c : MNode J) :
    IsInfra (has cxJ ss op fns c).res ∨ (has cxJ ss op fns c).res = (hasS ss op fns c).res :=
  has_refines_x cxJ rfl rfl ss hp op fns c

/-- … and outright, with the budget made explicit: if the nested search's definition needs
fewer than `(budget - 3) / 6` examinations (and selects fewer values than the model's loop
fuel), the library's `has` returns exactly what the definition says -/
theorem machine_has_is_definition_exact (ss : List (Step J)) (hq : Quiet ss) (hp : PredsClean ss.toArray)
    (hs : PredsStamped ss) (op : Option Fn) (fns : List Fn) (c : MNode J)
    (hb : 6 * exams ss (.imag c) + 3 < Generated.loopBudget) (hf : (eval ss (.imag c)).length < cxJ.fuel) :
    (has cxJ ss op fns c).res = (hasS ss op fns c).res :=
  has_exact cxJ rfl rfl ss hq hp hs op fns c hb hf

/-- for filter-free paths of supported steps no side condition is left -/
theorem machine_has_is_definition_filterFree (ss : List (Step J))
    (h : ∀ s ∈ ss, s.supported = true ∧ ∀ f, s ≠ .filter f) (op : Option Fn) (fns : List Fn) (c : MNode J) :
    IsInfra (has cxJ ss op fns c).res ∨ (has cxJ ss op fns c).res = (hasS ss op fns c).res :=
  machine_has_is_definition ss (quiet_of_filterFree ss h)
    (clean_of_filterFree ss.toArray (by simpa using fun s hs => (h s hs).2)) op fns c

/-- has-predicates compose: what a has-predicate emits never contains a result, a
`StopIteration` or a raise of the enclosing search, and all its match attempts carry a
candidate stamp — so a path whose filters are has-predicates meets the `PredsClean` premise
of the theorems above and the `PredsStamped` premise of the work bound (C20) -/
theorem has_filters_are_clean (ss : List (Step J))
    (h : ∀ s ∈ ss, ∀ f, s = .filter f → ∃ ss' op fns, f = has cxJ ss' op fns) : PredsClean ss.toArray := by
  intro s hs f hf n e he
  obtain ⟨ss', op, fns, rfl⟩ := h s (by simpa using hs) f hf
  exact inner_isClean e (has_evs_inner cxJ ss' op fns n e he)

theorem has_filters_are_stamped (ss : List (Step J))
    (h : ∀ s ∈ ss, ∀ f, s = .filter f → ∃ ss' op fns, f = has cxJ ss' op fns) : PredsStamped ss := by
  intro s hs f hf n
  obtain ⟨ss', op, fns, rfl⟩ := h s hs f hf
  exact attemptsTop_of_inner _ (has_evs_inner cxJ ss' op fns n)

/-- non-vacuity: a nested has over a real document, decided through the machine -/
example : (match (has cxJ [.idxWc] (some (cmpFn .gt (.int 1))) [⟨"neg", fnNeg⟩]
    (.root (.arr [.int 5, .int (-3)]))).res with | .val (.bool true) => true | _ => false) = true := by decide

end Treepath.C04
