import Treepath.Model.Api
import Treepath.Proofs.NodeLemmas
import Treepath.Proofs.RoundTrip
import Treepath.Proofs.Distinct
/- C11 — a Match tells the truth about where its value lives -/
namespace Treepath.C11
variable {α : Type}

/-- no parent step was used to reach the node -/
def parFree : MNode α → Bool
  | .root _ => true
  | .child p _ _ => parFree p
  | .imag p => parFree p
  | .par _ _ => false

/-- `path_as_str` is `'$'` followed by the `.key` / `[index]` segments of the location -/
theorem segs_of_loc (n : MNode α) (h : parFree n = true) : n.segs = "$" :: n.loc.map MNode.nameSeg := by
  induction n with
  | root d => rfl
  | child p nm d ih => simp [MNode.segs, MNode.loc, ih (by simpa [parFree] using h)]
  | imag p ih => simpa using ih (by simpa [parFree] using h)
  | par r f _ _ => simp [parFree] at h

theorem foldl_append_init (a : String) (l : List String) :
    List.foldl (fun r s => r ++ s) a l = a ++ List.foldl (fun r s => r ++ s) "" l := by
  induction l generalizing a with
  | nil => simp
  | cons x xs ih =>
    simp only [List.foldl_cons]
    rw [ih (a ++ x), ih ("" ++ x)]
    simp [String.append_assoc]

theorem pathStr_of_loc (n : MNode α) (h : parFree n = true) :
    n.pathStr = "$" ++ String.join (n.loc.map MNode.nameSeg) := by
  simp only [MNode.pathStr, segs_of_loc n h, String.join, List.foldl_cons]
  rw [foldl_append_init]
  simp

/-- `path_match_list` runs from the root to the match: it starts with the root … -/
theorem pathMatchList_head (n : MNode α) (h : parFree n = true) :
    ∃ d rest, n.pathMatchList = MNode.root d :: rest := by
  induction n with
  | root d => exact ⟨d, [], rfl⟩
  | child p nm d ih =>
    obtain ⟨d', rest, hr⟩ := ih (by simpa [parFree] using h)
    exact ⟨d', rest ++ [MNode.child p nm d], by simp [MNode.pathMatchList, hr]⟩
  | imag p ih => simpa using ih (by simpa [parFree] using h)
  | par r f _ _ => simp [parFree] at h

/-- … ends with the match itself (up to bookkeeping nodes) … -/
theorem pathMatchList_last (n : MNode α) (h : parFree n = true) :
    (n.pathMatchList.getLast?).map MNode.erase = some n.erase := by
  induction n with
  | root d => rfl
  | child p nm d _ => simp [MNode.pathMatchList]
  | imag p ih => simpa using ih (by simpa [parFree] using h)
  | par r f _ _ => simp [parFree] at h

/-- … has one element per level of the location … -/
theorem pathMatchList_length (n : MNode α) (h : parFree n = true) :
    n.pathMatchList.length = n.loc.length + 1 := by
  induction n with
  | root d => rfl
  | child p nm d ih => simp [MNode.pathMatchList, MNode.loc, ih (by simpa [parFree] using h)]
  | imag p ih => simpa using ih (by simpa [parFree] using h)
  | par r f _ _ => simp [parFree] at h

/-- … and the names of its elements after the root are the location -/
theorem pathMatchList_names (n : MNode α) (h : parFree n = true) :
    n.pathMatchList.map MNode.dataName = .key "$" :: n.loc := by
  induction n with
  | root d => rfl
  | child p nm d ih => simp [MNode.pathMatchList, MNode.loc, MNode.dataName, ih (by simpa [parFree] using h)]
  | imag p ih => simpa using ih (by simpa [parFree] using h)
  | par r f _ _ => simp [parFree] at h

/-- every element of the chain below the root is a `child` node whose `parent` is the
previous element: `element.data` is what was read from `element.parent.data[element.data_name]`
when the match was created -/
theorem pathMatchList_links (n : MNode α) (h : parFree n = true) :
    ∀ m ∈ n.pathMatchList, (∃ d, m = .root d) ∨ (∃ p nm d, m = .child p nm d ∧ m.parent = some p) := by
  induction n with
  | root d => intro m hm; simp [MNode.pathMatchList] at hm; exact .inl ⟨d, hm⟩
  | child p nm d ih =>
    intro m hm
    simp only [MNode.pathMatchList, List.mem_append, List.mem_singleton] at hm
    rcases hm with hm | hm
    · exact ih (by simpa [parFree] using h) m hm
    · exact .inr ⟨p, nm, d, hm, by subst hm; rfl⟩
  | imag p ih => simpa using ih (by simpa [parFree] using h)
  | par r f _ _ => simp [parFree] at h

/-- **round trip**: `get_match(m.path, document)` finds the same location holding the same
value: evaluating the explicit key / index path of a match whose chain is consistent with
the document, from the document root, yields exactly that match (bookkeeping nodes erased) -/
theorem get_match_of_path_finds_it (n : MNode J) (hc : Consistent n) :
    evalE (toPath n) (rootOf n) = ([n.erase], none) :=
  roundtrip n hc

/-- key, index and filter steps keep the chain consistent with the document: the value of a
selected node is what reading the parent's value at the node's name gives -/
theorem single_steps_keep_consistency (s : Step J) (n m : MNode J) (hn : Consistent n)
    (hs : match s with | .key _ | .idx _ | .filter _ => True | _ => False)
    (hm : m ∈ (evalStep s n).1) : Consistent m := by
  cases s <;> simp at hs
  case key k =>
    cases hd : n.data <;> simp [evalStep, Step.cls, singleOf, J.view, hd] at hm
    obtain ⟨x, hx, rfl⟩ := hm
    exact ⟨hn, by simp [lookupName, hd, hx]⟩
  case idx i =>
    cases hd : n.data <;> simp [evalStep, Step.cls, singleOf, J.view, hd] at hm
    obtain ⟨x, hx, rfl⟩ := hm
    exact ⟨hn, by simp [lookupName, hd, hx]⟩
  case filter f =>
    simp only [evalStep, Step.cls] at hm
    cases hr : (f n).res with
    | val j =>
      simp only [hr] at hm
      by_cases ht : j.truthy = true
      · simp [ht] at hm; subst hm; exact hn
      · simp [ht] at hm
    | raise e => simp [hr] at hm

/-- the key wildcard on a dict without duplicate keys (as every Python dict) keeps consistency -/
theorem keyWc_keeps_consistency (n m : MNode J) (hn : Consistent n) (hk : n.data.KeysNodup)
    (hm : m ∈ (evalStep .keyWc n).1) : Consistent m := by
  cases hd : n.data <;> simp [evalStep, Step.cls, itemsOf, J.view, hd, dictItems] at hm
  rename_i es
  obtain ⟨k, x, hx, rfl⟩ := hm
  refine ⟨hn, ?_⟩
  simp only [lookupName, hd]
  exact lookup_of_mem_nodup es k x hx (by simpa [J.KeysNodup, hd] using hk)

/-- **a query with at most one recursive step and no comma-delimited step never reports the
same location twice**: for every document whose dicts have unique keys (hereditarily — what
Python dicts guarantee), every path built from keys, indices, slices, the three wildcards and
value-returning filters, with at most one `rec` anywhere, the locations of the answer are
pairwise distinct.  (With a comma list `path["a","a"]`, or two recursive steps, repeats are
the specified behaviour.) -/
theorem never_the_same_location_twice (p : List (Step J)) (d : J) (hd : d.WFK) (hq : Quiet p)
    (hshape : (∀ s ∈ p, s.plain = true) ∨
      ∃ pre post, p = pre ++ Step.recur :: post ∧ (∀ s ∈ pre, s.plain = true) ∧ (∀ s ∈ post, s.plain = true)) :
    ((eval p (.root d)).map MNode.loc).Nodup :=
  locations_distinct p d hd hq hshape

/-- non-vacuity: the premises hold of a real document and a path with a wildcard before and
after the recursive step -/
example : (J.obj [("a", .arr [.int 1, .obj [("b", .int 2)]]), ("c", .obj [])]).WFK := by
  simp [J.WFK, J.WFKvs, J.WFList]

/-- … and the restriction is needed: two recursive steps report a location twice -/
example : ((eval [.recur, .keyWc, .recur] (.root (.obj [("a", .obj [("b", .obj [("c", .int 1)])])]))).map MNode.pathStr)
    = ["$.a", "$.a.b", "$.a.b.c", "$.a.b", "$.a.b.c"] := by decide

/-! ### `==` between matches -/

theorem ndChain_unfold (n : MNode J) :
    n.ndChain = (n.dataName, n.data) :: (match n.parent with | none => [] | some p => p.ndChain) := by
  induction n with
  | root d => rfl
  | child p nm d _ => rfl
  | imag p ih => simpa [MNode.ndChain, MNode.parent, MNode.data, MNode.dataName] using ih
  | par r f _ _ => rfl

/-- the model's `matchEq` satisfies the recursive equation `Match.__eq__` is written as:
`self.data == other.data and self.data_name == other.data_name and self.parent == other.parent`,
with `None == None` and a match never equal to `None` -/
theorem matchEq_is_the_recursion (a b : MNode J) :
    matchEq a b = (J.pyEq a.data b.data && (a.dataName == b.dataName) &&
      (match a.parent, b.parent with
       | none, none => true
       | some p, some q => matchEq p q
       | _, _ => false)) := by
  simp only [matchEq]
  rw [ndChain_unfold a, ndChain_unfold b]
  cases ha : a.parent <;> cases hb : b.parent <;> simp only [ndChainEq]
  · rename_i q; rw [ndChain_unfold q]; simp [ndChainEq]
  · rename_i p; rw [ndChain_unfold p]; simp [ndChainEq]

/-- for matches of a parent-free path the chain `==` walks is `path_match_list`, last element
first -/
theorem ndChain_is_pathMatchList (n : MNode J) (h : parFree n = true) :
    n.ndChain = (n.pathMatchList.map fun m => (m.dataName, m.data)).reverse := by
  induction n with
  | root d => rfl
  | child p nm d ih =>
    simp [MNode.ndChain, MNode.pathMatchList, MNode.dataName, MNode.data, ih (by simpa [parFree] using h)]
  | imag p ih => simpa [MNode.ndChain, MNode.pathMatchList] using ih (by simpa [parFree] using h)
  | par r f _ _ => simp [parFree] at h

/-- **two Match objects compare equal iff their chains carry the same data_names and equal
data at every level**: `==` is the element-wise comparison (Python `==` on the data, identity
of the names) of the two `path_match_list`s, of equal length -/
theorem eq_iff_chains (a b : MNode J) (ha : parFree a = true) (hb : parFree b = true) :
    matchEq a b = ndChainEq (a.pathMatchList.map fun m => (m.dataName, m.data)).reverse
                            (b.pathMatchList.map fun m => (m.dataName, m.data)).reverse := by
  simp only [matchEq, ndChain_is_pathMatchList a ha, ndChain_is_pathMatchList b hb]

/-- non-vacuity: equal data under different names is not equal; equal chains are (an `int`
and the equal `float`, a bookkeeping twin on one side) -/
example : matchEq (.child (.root (.arr [.int 1, .int 1])) (.idx 0) (.int 1))
                  (.child (.root (.arr [.int 1, .int 1])) (.idx 1) (.int 1)) = false := by
  simp [matchEq, MNode.ndChain, ndChainEq]
example : matchEq (.child (.root (.arr [.int 1])) (.idx 0) (.int 1))
                  (.imag (.child (.root (.arr [.half 2])) (.idx 0) (.half 2))) = true := by
  simp [matchEq, MNode.ndChain, ndChainEq, J.pyEq, J.pyEqList, J.num2?]

end Treepath.C11
