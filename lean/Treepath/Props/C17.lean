import Treepath.Proofs.DriveX
import Treepath.Proofs.Drive
import Treepath.Model.Has
import Treepath.Proofs.MachineLemmas
/- C17 — tracing observes without interfering -/
namespace Treepath.C17
variable {α : Type}

/-- the candidate under test is stamped on every event of the nested search, and an event
that already carries a (deeper) candidate keeps it: the innermost candidate wins -/
theorem stamp_innermost (c c' : MNode α) (e : Ev α) :
    Ev.stampIfNone c (Ev.stampIfNone c' e) = Ev.stampIfNone c' e := by
  cases e with
  | attempt l vi nx st => cases st <;> rfl
  | _ => rfl

/-- stamping never changes what an event says about the attempt itself -/
theorem stamp_keeps_attempt (c : MNode α) (l : MNode α) (vi : Nat) (nx st : Option (MNode α)) :
    ∃ st', Ev.stampIfNone c (.attempt l vi nx st) = .attempt l vi nx st' := by
  cases st <;> exact ⟨_, rfl⟩

/-- one trace event per `match_action`, emitted after the vertex ran, carrying what the vertex
returned: in every event `next_match` is what `next_vertex.match(last_match)` produced -/
theorem attempt_reports_vmatch (view : α → View α) (steps : Array (Step α)) (st : St α) (c : Nat) (tm : TM α)
    (s : Step α) (hs : steps[tm.vidx]? = some s) (st' : St α) (q : Nat) (evs : List (Ev α))
    (hv : vmatch view st c tm (tm.vidx + 1) s = .ok st' (some q) evs) :
    (matchAction view steps st c tm).2.1 =
      evs ++ [.attempt tm.node (tm.vidx + 1) ((st'.heap[q]?).map (·.node)) none] := by
  simp [matchAction, hs, hv]

theorem failed_attempt_reports_none (view : α → View α) (steps : Array (Step α)) (st : St α) (c : Nat) (tm tm' : TM α)
    (s : Step α) (hs : steps[tm.vidx]? = some s) (st' : St α) (evs : List (Ev α))
    (hv : vmatch view st c tm (tm.vidx + 1) s = .ok st' none evs) (hc : st'.heap[c]? = some tm') :
    (matchAction view steps st c tm).2.1 = evs ++ [.attempt tm.node (tm.vidx + 1) none none] := by
  simp [matchAction, hs, hv, hc]

/-- **the trace is the specification's stream.**  The complete run of the machine emits, event
for event, `stream steps 0 root`: one `attempt` per `match_action` carrying what the vertex
returned, the predicate's own (stamped) events in place, results in place. -/
theorem trace_is_stream (steps : Array (Step J)) (src : Src J) (hq : Quiet steps.toList) :
    ∃ k stD, hrun J.view steps src (1 + k) freshIter = (stD, stream steps.toList 0 src.rootNode) ∧ stD.act = .done :=
  full_run steps src hq

/-- … and with predicates that raise: the trace is the stream through its first `raised`
event (nothing is traced after the exception; the iterator is stuck in the action that raises) -/
theorem trace_is_stream_any_predicate (steps : Array (Step J)) (src : Src J) (hp : PredsClean steps) :
    (firstRaise (stream steps.toList 0 src.rootNode) = none ∧
      ∃ k stD, hrun J.view steps src k freshIter = (stD, stream steps.toList 0 src.rootNode) ∧ stD.act = .done) ∨
    (∃ e, firstRaise (stream steps.toList 0 src.rootNode) = some e ∧
      ∃ k stU evs', hrun J.view steps src k freshIter = (stU, takeThroughRaise (stream steps.toList 0 src.rootNode)) ∧
        action J.view steps src stU = (stU, evs', .raised e) ∧ firstRaise evs' = some e) :=
  full_run_x steps src hp

/-- in the stream every result is immediately preceded by the attempt that produced it: for
a path with at least one step, `[…, attempt last vi (some m), result m, …]` -/
theorem result_follows_its_attempt (s : Step J) (hc : s.cls = .single) (vi : Nat) (n n' : MNode J)
    (h : singleOf J.view s n = some n') :
    stream [s] vi n = [.attempt n (vi+1) (some n') none, .result n'] := by
  simp [stream, hc, h]

end Treepath.C17
