import Treepath.Proofs.DriveX
import Treepath.Proofs.Drive
import Treepath.Model.Has
import Treepath.Proofs.MachineLemmas
import Treepath.Proofs.LeafEvents
/- C17 — tracing observes without interfering -/
namespace Treepath.C17
variable {α : Type}

/-- the candidate under test is stamped on every event of the nested search, and an event
that already carries a (deeper) candidate keeps it: the innermost candidate wins -/
theorem stamp_innermost (c c' : MNode α) (e : Ev α) :
    Ev.stampIfNone c (Ev.stampIfNone c' e) = Ev.stampIfNone c' e := by
  cases e with
  | attempt l vi nx st => cases st <;> rfl
  | _ => rfl

/-- stamping never changes what an event says about the attempt itself -/
theorem stamp_keeps_attempt (c : MNode α) (l : MNode α) (vi : Nat) (nx st : Option (MNode α)) :
    ∃ st', Ev.stampIfNone c (.attempt l vi nx st) = .attempt l vi nx st' := by
  cases st <;> exact ⟨_, rfl⟩

/-- one trace event per `match_action`, emitted after the vertex ran, carrying what the vertex
returned: in every event `next_match` is what `next_vertex.match(last_match)` produced -/
theorem attempt_reports_vmatch (view : α → View α) (steps : Array (Step α)) (st : St α) (c : Nat) (tm : TM α)
    (s : Step α) (hs : steps[tm.vidx]? = some s) (st' : St α) (q : Nat) (evs : List (Ev α))
    (hv : vmatch view st c tm (tm.vidx + 1) s = .ok st' (some q) evs) :
    (matchAction view steps st c tm).2.1 =
      evs ++ [.attempt tm.node (tm.vidx + 1) ((st'.heap[q]?).map (·.node)) none] := by
  simp [matchAction, hs, hv]

theorem failed_attempt_reports_none (view : α → View α) (steps : Array (Step α)) (st : St α) (c : Nat) (tm tm' : TM α)
    (s : Step α) (hs : steps[tm.vidx]? = some s) (st' : St α) (evs : List (Ev α))
    (hv : vmatch view st c tm (tm.vidx + 1) s = .ok st' none evs) (hc : st'.heap[c]? = some tm') :
    (matchAction view steps st c tm).2.1 = evs ++ [.attempt tm.node (tm.vidx + 1) none none] := by
  simp [matchAction, hs, hv, hc]

/-- **the trace is the specification's stream.**  The complete run of the machine emits, event
for event, `stream steps 0 root`: one `attempt` per `match_action` carrying what the vertex
returned, the predicate's own (stamped) events in place, results in place. -/
theorem trace_is_stream (steps : Array (Step J)) (src : Src J) (hq : Quiet steps.toList) :
    ∃ k stD, hrun J.view steps src (1 + k) freshIter = (stD, stream steps.toList 0 src.rootNode) ∧ stD.act = .done :=
  full_run steps src hq

/-- … and with predicates that raise: the trace is the stream through its first `raised`
event (nothing is traced after the exception; the iterator is stuck in the action that raises) -/
theorem trace_is_stream_any_predicate (steps : Array (Step J)) (src : Src J) (hp : PredsClean steps) :
    (firstRaise (stream steps.toList 0 src.rootNode) = none ∧
      ∃ k stD, hrun J.view steps src k freshIter = (stD, stream steps.toList 0 src.rootNode) ∧ stD.act = .done) ∨
    (∃ e, firstRaise (stream steps.toList 0 src.rootNode) = some e ∧
      ∃ k stU evs', hrun J.view steps src k freshIter = (stU, takeThroughRaise (stream steps.toList 0 src.rootNode)) ∧
        action J.view steps src stU = (stU, evs', .raised e) ∧ firstRaise evs' = some e) :=
  full_run_x steps src hp

/-- in the stream every result is immediately preceded by the attempt that produced it: for
a path with at least one step, `[…, attempt last vi (some m), result m, …]` -/
theorem result_follows_its_attempt (s : Step J) (hc : s.cls = .single) (vi : Nat) (n n' : MNode J)
    (h : singleOf J.view s n = some n') :
    stream [s] vi n = [.attempt n (vi+1) (some n') none, .result n'] := by
  simp [stream, hc, h]

/-- **leaf events ↔ results**: "the events delivered outside filter evaluation that attempted the
path's last step and succeeded correspond one-to-one, in order, to the results yielded" — in the
specification's stream of any non-empty path (every step kind, recursion included) whose
predicates keep to themselves (their own attempts are stamped with the candidate, they emit no
results of the outer search: true of the has-family and of custom predicates that search from
the Match they receive) -/
theorem leaf_events_are_the_results (p : List (Step J)) (hne : p ≠ []) (hs : PredsStamped p) (hsil : PredsSilent p)
    (n : MNode J) : leafHits p.length (stream p 0 n) = resultsOf (stream p 0 n) := by
  simpa using leaf_hits_are_results p hne hs hsil 0 n

/-- … and in the trace of the machine's complete run (predicates that do not raise) -/
theorem machine_leaf_events_are_the_results (steps : Array (Step J)) (src : Src J) (hq : Quiet steps.toList)
    (hne : steps.toList ≠ []) (hs : PredsStamped steps.toList) (hsil : PredsSilent steps.toList) :
    ∃ k stD, (hrun J.view steps src (1 + k) freshIter).1 = stD ∧ stD.act = .done ∧
      leafHits steps.size (hrun J.view steps src (1 + k) freshIter).2 =
        resultsOf (hrun J.view steps src (1 + k) freshIter).2 := by
  obtain ⟨k, stD, h1, h2⟩ := full_run steps src hq
  refine ⟨k, stD, by rw [h1], h2, ?_⟩
  rw [h1]
  have := leaf_events_are_the_results steps.toList hne hs hsil src.rootNode
  simpa using this

/-- … and with predicates that raise: the trace of the run through the first exception (the
iterator is then stuck in the action that raises) still pairs every leaf event with a result -/
theorem machine_leaf_events_are_the_results_any_predicate (steps : Array (Step J)) (src : Src J) (hp : PredsClean steps)
    (hne : steps.toList ≠ []) (hs : PredsStamped steps.toList) (hsil : PredsSilent steps.toList) :
    ∃ k, leafHits steps.size (hrun J.view steps src k freshIter).2 = resultsOf (hrun J.view steps src k freshIter).2 ∧
      ((hrun J.view steps src k freshIter).1.act = .done ∨
       ∃ e evs', action J.view steps src (hrun J.view steps src k freshIter).1 =
          ((hrun J.view steps src k freshIter).1, evs', .raised e)) := by
  have hx := leaf_hits_are_results_x steps.toList hne hs hsil 0 src.rootNode
  have hq := leaf_hits_are_results steps.toList hne hs hsil 0 src.rootNode
  simp only [Nat.zero_add, Array.length_toList] at hx hq
  rcases full_run_x steps src hp with ⟨_, k, stD, h1, h2⟩ | ⟨e, _, k, stU, evs', h1, h2, _⟩
  · exact ⟨k, by rw [h1]; exact hq, .inl (by rw [h1]; exact h2)⟩
  · exact ⟨k, by rw [h1]; exact hx, .inr ⟨e, evs', by rw [h1]; exact h2⟩⟩

/-- the statement is not vacuous, and it counts what it should: `$.a[*]` over two members -/
example : leafHits 2 (stream [Step.key "a", .idxWc] 0 (.root (.obj [("a", .arr [.int 1, .int 2])]))) =
    [.child (.child (.root (.obj [("a", .arr [.int 1, .int 2])])) (.key "a") (.arr [.int 1, .int 2])) (.idx 0) (.int 1),
     .child (.child (.root (.obj [("a", .arr [.int 1, .int 2])])) (.key "a") (.arr [.int 1, .int 2])) (.idx 1) (.int 2)] := by
  rfl

end Treepath.C17
