import Treepath.Proofs.Drive
import Treepath.Proofs.EvalLemmas
import Treepath.Proofs.NodeLemmas
import Treepath.Proofs.Distinct
/- C12 — searching from a Match continues the original path -/
namespace Treepath.C12

/-- **Concatenation**: for `p` not ending in a recursive step, running `q` from each match of
`p` in order yields the same sequence of results as running `p ++ q` from the root — same
nodes, hence same locations, values, absolute paths, parents and match lists — including
the first exception, if any. -/
theorem concat (p q : List (Step J)) (hp : notEndsInRecur p = true) (n : MNode J) :
    evalE (p ++ q) n = bindRes (evalE p n) (evalE q) :=
  evalE_append p q hp n

/-- without exceptions this is plain `flatMap` -/
theorem concat_noraise (p q : List (Step J)) (hp : notEndsInRecur p = true) (n : MNode J)
    (h1 : (evalE p n).2 = none) (h2 : ∀ m ∈ (evalE p n).1, (evalE q m).2 = none) :
    eval (p ++ q) n = (eval p n).flatMap (eval q) := by
  simp only [eval, concat p q hp n, bindRes]
  rw [seqFlat_noraise _ _ h2]
  simp only [Res.append, List.append_nil]
  rfl

/-- a search started from a Match `m` is the evaluation from the bookkeeping node `imag m`,
which has the same data, name, parent, absolute path and ancestry as `m`: results carry
absolute locations, and parent steps can climb above `m` -/
theorem nested_root_transparent (m : MNode J) :
    (MNode.imag m).data = m.data ∧ (MNode.imag m).pathStr = m.pathStr ∧
    (MNode.imag m).pathMatchList = m.pathMatchList ∧ (MNode.imag m).parent = m.parent ∧
    (MNode.imag m).remParent = m.remParent := by simp

/-- the nested traverser (search started from a Match `m`: `init_action` creates an imaginary
match whose real parent is `m`) yields exactly the definition evaluated from `imag m` -/
theorem nested_machine (steps : Array (Step J)) (m : MNode J) (hq : Quiet steps.toList) (hp : PredsClean steps)
    (limit : Nat) (st' st'' : St J) (rs : List (MNode J)) (E evs : List (Ev J))
    (hy : Yields J.view steps (.nested m) limit freshIter rs E st')
    (hstop : next J.view steps (.nested m) limit st' = (st'', evs, .stop)) :
    rs = eval steps.toList (.imag m) :=
  exhausted_all steps (.nested m) hq hp limit st' st'' rs E evs hy hstop

/-- a parent step at the start of `q` climbs above the Match the search started from -/
theorem climb_above_source (m t : MNode J) (h : m.remParent = some t) :
    evalStep .parent (.imag m) = ([.par t (.imag m)], none) := by
  simp [evalStep, Step.cls, singleOf, h]

example : (eval [.parent, .key "b"] (.imag (.child (.root (.obj [("a", .int 1), ("b", .int 2)])) (.key "a") (.int 1)))).map
    MNode.pathStr = ["$.a<-$.b"] := by decide

/-- **results obtained from a Match carry absolute locations**: for a quiet path of plain steps
(keys, indices, slices, wildcards, filters) evaluated from any node `n` — in particular from
the bookkeeping root of a search started from a Match — every result's location starts with
`n`'s own location, i.e. with the names from the document root down to the Match -/
theorem results_are_located_below_the_source (q : List (Step J)) (hp : ∀ s ∈ q, s.plain = true) (hq : Quiet q) :
    ∀ (n : MNode J), n.data.WFK → ∀ r ∈ eval q n, n.loc <+: r.loc ∧ r.data.WFK := by
  induction q with
  | nil => intro n hw r hr; simp [eval, evalE] at hr; subst hr; exact ⟨List.prefix_refl _, hw⟩
  | cons s rest ih =>
    intro n hw r hr
    have hs := hp s (by simp)
    have hrec : s.isRecur = false := plain_not_recur s hs
    have hq' : Quiet rest := fun t ht => hq t (List.mem_cons_of_mem _ ht)
    have IH := ih (fun t ht => hp t (List.mem_cons_of_mem _ ht)) hq'
    rw [eval_cons_quiet s rest hq hrec n] at hr
    obtain ⟨a, ha, hra⟩ := List.mem_flatMap.mp hr
    by_cases hf : s.isFilter = true
    · cases s <;> simp [Step.isFilter] at hf
      rename_i f
      rcases evalStep_filter f n with h0 | h1
      · rw [h0] at ha; simp at ha
      · rw [h1] at ha
        simp only [List.mem_singleton] at ha
        subst ha
        exact IH (.imag n) hw r hra
    · obtain ⟨its, e1, _, e3⟩ := evalStep_children s hs (by simpa using hf) n hw
      rw [e1] at ha
      obtain ⟨it, hit, rfl⟩ := List.mem_map.mp ha
      obtain ⟨h1, h2⟩ := IH (.child n it.1 it.2) (e3 it hit) r hra
      exact ⟨(List.prefix_append _ _).trans (by simpa [MNode.loc] using h1), h2⟩

/-- … stated for the search from a Match `m` itself -/
theorem nested_results_are_absolute (q : List (Step J)) (hp : ∀ s ∈ q, s.plain = true) (hq : Quiet q)
    (m : MNode J) (hw : m.data.WFK) : ∀ r ∈ eval q (.imag m), m.loc <+: r.loc :=
  fun r hr => (results_are_located_below_the_source q hp hq (.imag m) hw r hr).1

end Treepath.C12
