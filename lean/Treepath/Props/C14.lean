import Treepath.Proofs.Descends
import Treepath.Proofs.MutateLemmas
import Treepath.Proofs.NaturalNext
import Treepath.Proofs.RefoldHandles
/- C14 — Match.data assignment, del and pop write through to the document -/
namespace Treepath.C14

/-- `m.data = v`: the parent container holds `v` itself at the match's name afterwards, only
that object is written, and `m.data` reflects it -/
theorem assign_frame (h h' : Heap) (hd hd' : Handle) (v : Val) (ha : hd.assign h v = .ok (h', hd')) :
    hd'.cache = v ∧ hd'.slot h' = some v ∧ h'.size = h.size ∧
    ∃ id : Nat, hd.parent = .ref id ∧ ∀ j : Nat, j ≠ id → h'[j]? = h[j]? := by
  unfold Handle.assign at ha
  split at ha
  · rename_i id k hp hn
    split at ha
    · rename_i es ho
      simp only [Except.ok.injEq, Prod.mk.injEq] at ha
      obtain ⟨h1, h2⟩ := ha; subst h1; subst h2
      have hlt : id < h.size := (Array.getElem?_eq_some_iff.mp ho).1
      refine ⟨rfl, ?_, hput_size _ _ _, id, hp, fun j hj => hput_other _ _ _ _ hj⟩
      simp [Handle.slot, hp, hn, hput_self _ _ _ hlt, dictSet_lookup_self]
    · simp at ha
  · rename_i id i hp hn
    split at ha
    · rename_i xs ho
      split at ha
      · rename_i xs' hs
        simp only [Except.ok.injEq, Prod.mk.injEq] at ha
        obtain ⟨h1, h2⟩ := ha; subst h1; subst h2
        have hlt : id < h.size := (Array.getElem?_eq_some_iff.mp ho).1
        refine ⟨rfl, ?_, hput_size _ _ _, id, hp, fun j hj => hput_other _ _ _ _ hj⟩
        cases hk : normIndex xs.length i with
        | none => simp [listSet, hk] at hs
        | some kk =>
          have hlen := listSet_length _ _ _ _ hs
          have := (listSet_get _ _ _ _ _ hs hk).1
          simp [Handle.slot, hp, hn, hput_self _ _ _ hlt, hlen, hk, this]
      · simp at ha
    · simp at ha
  · simp at ha

/-- `del m.data` removes the entry exactly as dict / list deletion does, writes only the
parent container; removing an entry that no longer exists is PopError with the store
unchanged (the function returns no new store in that case) -/
theorem del_frame (h h' : Heap) (hd hd' : Handle) (hdel : hd.del h = .ok (h', hd')) :
    h'.size = h.size ∧ (hd.slot h).isSome ∧ ∃ id : Nat, hd.parent = .ref id ∧ ∀ j : Nat, j ≠ id → h'[j]? = h[j]? := by
  unfold Handle.del at hdel
  split at hdel
  · rename_i id k hp hn
    split at hdel
    · rename_i es ho
      split at hdel
      · rename_i v es' hdd
        simp only [Except.ok.injEq, Prod.mk.injEq] at hdel
        obtain ⟨h1, _⟩ := hdel; subst h1
        obtain ⟨hl, _⟩ := dictDel_spec _ _ _ _ hdd
        exact ⟨hput_size _ _ _, by simp [Handle.slot, hp, hn, ho, hl], id, hp, fun j hj => hput_other _ _ _ _ hj⟩
      · simp at hdel
    · simp at hdel
  · rename_i id i hp hn
    split at hdel
    · rename_i xs ho
      split at hdel
      · rename_i v xs' hdd
        simp only [Except.ok.injEq, Prod.mk.injEq] at hdel
        obtain ⟨h1, _⟩ := hdel; subst h1
        obtain ⟨kk, hk, hv, _⟩ := listDel_spec _ _ _ _ hdd
        exact ⟨hput_size _ _ _, by simp [Handle.slot, hp, hn, ho, hk, hv], id, hp, fun j hj => hput_other _ _ _ _ hj⟩
      · simp at hdel
    · simp at hdel
  · simp at hdel

/-- `del` of an entry that no longer exists: PopError -/
theorem del_missing (h : Heap) (hd : Handle) (id : Nat) (hp : hd.parent = .ref id)
    (hkind : (∃ es k, h[id]? = some (.dict es) ∧ hd.name = .key k) ∨ (∃ xs i, h[id]? = some (.list xs) ∧ hd.name = .idx i))
    (hs : hd.slot h = none) : hd.del h = .error .popError := by
  rcases hkind with ⟨es, k, ho, hn⟩ | ⟨xs, i, ho, hn⟩
  · simp only [Handle.slot, hp, hn, ho] at hs
    simp [Handle.del, hp, hn, ho, dictDel, hs]
  · simp only [Handle.slot, hp, hn, ho] at hs
    have : listDel xs i = none := by
      unfold listDel
      cases hk : normIndex xs.length i with
      | none => rfl
      | some kk => simp [hk] at hs; simp [hs]
    simp [Handle.del, hp, hn, ho, this]

/-- `m.pop()` returns **the value it removes** (read from the slot, not the value cached
when the match was created — fix F4), and removes it as `del` does -/
theorem pop_returns_removed (h h' : Heap) (hd hd' : Handle) (d : Option Val) (v : Val)
    (hp : hd.pop h d = .ok (h', hd', v)) :
    (hd.slot h = some v ∧ hd.del h = .ok (h', hd')) ∨ (hd.del h = .error .popError ∧ d = some v ∧ h' = h) := by
  unfold Handle.pop at hp
  cases hdel : hd.del h with
  | ok r =>
    obtain ⟨h1, hd1⟩ := r
    simp only [hdel, Except.ok.injEq, Prod.mk.injEq] at hp
    obtain ⟨e1, e2, e3⟩ := hp
    subst e1; subst e2
    left
    obtain ⟨_, hsome, _⟩ := del_frame _ _ _ _ hdel
    cases hs : hd.slot h with
    | none => simp [hs] at hsome
    | some w => simp [hs] at e3; subst e3; exact ⟨rfl, rfl⟩
  | error e =>
    cases e with
    | popError =>
      simp only [hdel] at hp
      cases d with
      | none => simp at hp
      | some dv =>
        simp only [Except.ok.injEq, Prod.mk.injEq] at hp
        obtain ⟨e1, _, e3⟩ := hp
        right; exact ⟨rfl, by rw [e3], e1.symm⟩
    | py c => simp [hdel] at hp

/-- removing an entry that no longer exists raises PopError unless a default is given -/
theorem pop_missing_no_default (h : Heap) (hd : Handle) (hdel : hd.del h = .error .popError) :
    hd.pop h none = .error .popError := by
  simp [Handle.pop, hdel]

/-- witness of the defect repaired by F4: with the value cached at creation, a second handle
of a slot rewritten through the first would report the stale value -/
example : let h : Heap := #[.list [.atom (.int 1), .atom (.int 2), .atom (.int 3)]]
    let m1 : Handle := { parent := .ref 0, name := .idx 1, cache := .atom (.int 2), pathStr := "$[1]" }
    (match m1.assign h (.atom (.int 5)) with
     | .ok (h1, _) => (match m1.pop h1 none with | .ok (_, _, .atom (.int 5)) => true | _ => false)
     | _ => false) = true := by decide

/-- **"every match obtainable by any parent-free path"**, against the definition: the
matches of a search over the object store — from which the handles of this property are
taken — are, one for one and in order, at the locations of the matches of the same search
over the JSON tree the document unfolds to, holding values that unfold to theirs -/
theorem handles_are_the_definitions_matches (h : Heap) (v : Val) (j : J) (hu : Unf h v j)
    (sa : Array (Step Val)) (sb : Array (Step J)) (hsteps : LRel (StepRel (Unf h)) sa.toList sb.toList) (fuel : Nat) :
    LRel (NodeRel (Unf h)) (drain (wcx h) sa (.doc v) fuel freshIter).1
      (drain ({ view := J.view, toJ := id } : Ctx J) sb (.doc j) fuel freshIter).1 ∧
    (drain (wcx h) sa (.doc v) fuel freshIter).2 =
      (drain ({ view := J.view, toJ := id } : Ctx J) sb (.doc j) fuel freshIter).2 :=
  heap_drain_is_tree_drain h v j hu sa sb hsteps fuel

/-! ### `Match.parent`: the objects behind a match and its ancestors -/

/-- the chain of cells is the match followed by the chain of its `.parent` (an imaginary
match forwards `.parent` to the match it shadows) -/
theorem cells_unfold (n : MNode Val) :
    n.cells = cellOf n :: (match n.parent with | none => [] | some p => p.cells) := by
  induction n with
  | root d => rfl
  | child p nm d _ => rfl
  | imag p ih => simp [MNode.cells, MNode.parent, ih]
  | par r f _ _ => rfl

/-- the handle at depth 0 of a result's group is the `Match` of that result -/
theorem group_depth_zero (n : MNode Val) : groupHandle n.cells 0 = Handle.ofNode n := by
  cases hp : n.parent with
  | none => rw [cells_unfold n, hp]; simp [groupHandle, Handle.ofNode, hp]
  | some p =>
    rw [cells_unfold n, hp]
    simp only []
    rw [cells_unfold p]
    simp [groupHandle, Handle.ofNode, hp, cellOf]

/-- one step along `.parent` in a group is the `Match` of the parent -/
theorem group_parent (n p : MNode Val) (hp : n.parent = some p) (d : Nat) :
    groupHandle n.cells (d+1) = groupHandle p.cells d := by
  rw [cells_unfold n, hp]
  simp [groupHandle]

/-- **replacing a container through `m.parent` redirects the writes through `m`**: after an
operation through the handle at depth `d+1` that leaves it caching `c`, the handle at depth
`d` writes into `c` (its name and its own cache are untouched) -/
theorem write_through_parent_redirects (cs : List HCell) (d : Nat) (hd hp hp' : Handle)
    (h0 : groupHandle cs d = some hd) (_h1 : groupHandle cs (d+1) = some hp) :
    ∃ hd', groupHandle (groupStore cs (d+1) hp') d = some hd' ∧
      hd'.parent = hp'.cache ∧ hd'.name = hd.name ∧ hd'.cache = hd.cache := by
  simp only [groupHandle] at h0
  split at h0
  · rename_i c p hc hpc
    simp only [Option.some.injEq] at h0
    subst h0
    have hlt : d + 1 < cs.length := (List.getElem?_eq_some_iff.mp hpc).1
    refine ⟨{ parent := hp'.cache, name := c.name, cache := c.data, pathStr := c.pathStr }, ?_, rfl, rfl, rfl⟩
    simp only [groupStore, hpc, groupHandle]
    rw [List.getElem?_set_ne (by omega), hc, List.getElem?_set_self hlt]
  · simp at h0

/-- an operation through a handle leaves the other cells of its group alone -/
theorem group_store_frame (cs : List HCell) (d k : Nat) (hd : Handle) (hk : k ≠ d) :
    (groupStore cs d hd)[k]? = cs[k]? := by
  simp only [groupStore]
  split
  · exact List.getElem?_set_ne (by omega)
  · rfl

/-- non-vacuity: `$.a[f].b` — the chain is `b`, the filter's bookkeeping match (named `a`,
a cell of its own), the root; the plain match `$.a` is not on it -/
example : ((MNode.child (.imag (.child (.root (.ref 0)) (.key "a") (.ref 1))) (.key "b") (.atom (.int 1))).cells.map (·.pathStr))
    = ["$.a.b", "$.a", "$"] := by decide

/-! ### the writes of a `Match`, said on the JSON tree -/

/-- every match of every iteration over a document with unique dict keys is *genuine*: walking
its `data_name`s from the root by Python's own lookups reaches the value it holds — the
premise under which a handle's write is a write "at that location" -/
theorem matches_are_genuine (h : Heap) (hw : HeapWF h) (root : Val) (steps : Array (Step Val)) (fuel : Nat) :
    ∀ n ∈ (drain (wcx h) steps (.doc root) fuel freshIter).1,
      Gen (hview h) root n ∧ walk (hview h) root n.loc = some n.data := fun n hn =>
  have hg := drain_fresh_gen (wcx h) root steps (.doc root) (heapwf_keysUniq hw) rfl fuel n hn
  ⟨hg, gen_walk (hview h) root n hg⟩

/-- **`m.data = v` makes the document hold `v` at that location and changes nothing else**, on
the tree: the document (a tree: `DocInv`) unfolds afterwards to `j` with `jv` at the name
`m.data_name` inside the node at the location of `m.parent`, and is again a tree -/
theorem assign_is_one_tree_update (h h' : Heap) (root : Val) (j jv : J) (m p : MNode Val) (hd hd' : Handle) (v : Val)
    (hi : DocInv h root j) (hgen : Gen (hview h) root m) (hm : m.parent = some p)
    (hh : Handle.ofNode m = some hd)
    (hv : UnfJ h jv v) (hvn : (fpJ h jv v).Nodup) (hfresh : ∀ x ∈ fpJ h jv v, x ∉ fpJ h j root)
    (ha : hd.assign h v = .ok (h', hd')) :
    ∃ j', J.setAt j p.loc m.dataName jv = some j' ∧ DocInv h' root j' :=
  assign_refines h h' root j jv m p hd hd' v hi hgen hm hh hv hvn hfresh ha

/-- **`del m.data` removes that entry exactly as dict / list deletion does**, on the tree -/
theorem del_is_one_tree_update (h h' : Heap) (root : Val) (j : J) (m p : MNode Val) (hd hd' : Handle)
    (hi : DocInv h root j) (hgen : Gen (hview h) root m) (hm : m.parent = some p)
    (hh : Handle.ofNode m = some hd) (ha : hd.del h = .ok (h', hd')) :
    ∃ j', J.popAt j p.loc m.dataName = some j' ∧ DocInv h' root j' :=
  del_refines h h' root j m p hd hd' hi hgen hm hh ha

/-! ### a search from a `Match` hangs its results below that Match's own objects -/

/-- the cells of anything that descends from the nested root `imag sm` end in the cells of
`sm.parent, sm.parent.parent, …`; the part in front is never empty -/
theorem cells_below_nested_root (sm m : MNode Val) (hd : Desc (.imag sm) m) :
    ∃ own, own ≠ [] ∧ m.cells = own ++ sm.cells.tail := by
  induction hd with
  | refl => exact ⟨[cellOf (.imag sm)], by simp, by simp [MNode.cells]⟩
  | @child p nm d _ ih =>
    obtain ⟨own, _, he⟩ := ih
    exact ⟨cellOf (.child p nm d) :: own, by simp, by simp [MNode.cells, he]⟩
  | @imag p _ ih =>
    obtain ⟨own, hne, he⟩ := ih
    cases own with
    | nil => exact absurd rfl hne
    | cons c own' => exact ⟨cellOf (.imag p) :: own', by simp, by simp [MNode.cells, he]⟩
  | @par rm f _ ih =>
    obtain ⟨own, _, he⟩ := ih
    exact ⟨cellOf (.par rm f) :: own, by simp, by simp [MNode.cells, he]⟩

/-- **results of `find_matches(q, match)` share the start match's ancestors**: for every result
`m` of a search started from the Match `sm`, the chain `m, m.parent, …` consists of objects of
its own followed by exactly the chain `sm.parent, sm.parent.parent, …` of the start match —
the same `TraverserMatch` objects (this is what the cell heap of the handle histories
implements: the shared tail is not copied).  Replacing a container through `sm.parent`
therefore also redirects the writes of matches found from `sm`. -/
theorem nested_results_share_the_start_chain (h : Heap) (steps : Array (Step Val)) (sm : MNode Val) (fuel : Nat) :
    ∀ m ∈ (drain (wcx h) steps (.nested sm) fuel freshIter).1,
      ∃ own, own ≠ [] ∧ m.cells = own ++ sm.cells.tail ∧ own.length = m.cells.length - sm.cells.tail.length := by
  intro m hm
  obtain ⟨own, hne, he⟩ := cells_below_nested_root sm m (drain_fresh_desc (wcx h) steps (.nested sm) fuel m hm)
  exact ⟨own, hne, he, by rw [he]; simp⟩

end Treepath.C14
