import Treepath.Proofs.Drive
import Treepath.Proofs.EvalLemmas
import Treepath.Proofs.NodeLemmas
import Treepath.Proofs.Distinct
/- C02 — recursive descent visits every node once, in document pre-order -/
namespace Treepath.C02

/-- As the last step, `rec` yields the context container followed by all its descendants —
containers and scalars alike — in document pre-order; containers are reported through their
(invisible) bookkeeping node, scalars as themselves. -/
theorem rec_last (n : MNode J) :
    evalE [.recur] n = ((recNodes n).map (fun m => if m.data.isContainer then .imag m else m), none) := by
  have : (fun m : MNode J => if m.data.isContainer then (([MNode.imag m], none) : Res)
            else if ([] : List (Step J)).isEmpty then ([m], none) else ([], none))
        = fun m => ([if m.data.isContainer then MNode.imag m else m], none) := by
    funext m; by_cases h : m.data.isContainer <;> simp [h]
  simp only [evalE]
  rw [this, seqFlat_pure (fun m => [if m.data.isContainer then MNode.imag m else m])]
  simp [flatMap_singleton_map]

/-- the locations and values reported by a trailing `rec` are exactly those of the pre-order
listing (bookkeeping nodes erased) -/
theorem rec_last_erased (n : MNode J) :
    (eval [.recur] n).map MNode.erase = (recNodes n).map MNode.erase := by
  simp only [eval, rec_last, List.map_map]
  apply List.map_congr_left
  intro m _
  by_cases h : m.data.isContainer <;> simp [h]

/-- a scalar context yields nothing, whatever follows -/
theorem rec_scalar_context (rest : List (Step J)) (n : MNode J) (h : n.data.isContainer = false) :
    evalE (.recur :: rest) n = ([], none) := by
  simp [evalE, recNodes, h]

/-- followed by further steps, the remainder of the path is evaluated at the context
container and then at every descendant *container*, in the same pre-order, the results
concatenated in that order -/
theorem rec_then (s : Step J) (rest : List (Step J)) (n : MNode J) :
    evalE (.recur :: s :: rest) n =
      seqFlat (fun m => evalE (s :: rest) (.imag m)) ((recNodes n).filter (fun m => m.data.isContainer)) := by
  simp only [evalE, List.isEmpty_cons]
  generalize recNodes n = ns
  induction ns with
  | nil => rfl
  | cons m ms ih =>
    by_cases h : m.data.isContainer
    · simp only [seqFlat, h, if_true, List.filter_cons_of_pos]
      simp only [Bool.false_eq_true, if_false] at ih ⊢
      rw [ih]
    · simp only [Bool.not_eq_true] at h
      simp only [seqFlat, h, Bool.false_eq_true, if_false, List.filter_cons_of_neg, not_false_eq_true]
      simp only [Bool.false_eq_true, if_false] at ih
      rw [ih]
      simp

/-- pre-order: a container comes first, then the sub-listings of its members in insertion /
index order -/
theorem preorder_obj (n : MNode J) (kvs : List (String × J)) :
    preNodes n (.obj kvs) = n :: preKvs n kvs := by simp [preNodes]

theorem preorder_arr (n : MNode J) (xs : List J) :
    preNodes n (.arr xs) = n :: preXs n 0 xs := by simp [preNodes]

theorem preorder_members (n : MNode J) (k : String) (v : J) (rest : List (String × J)) :
    preKvs n ((k, v) :: rest) = preNodes (.child n (.key k) v) v ++ preKvs n rest := by simp [preKvs]

theorem preorder_items (n : MNode J) (i : Nat) (x : J) (rest : List J) :
    preXs n i (x :: rest) = preNodes (.child n (.idx i) x) x ++ preXs n (i+1) rest := by simp [preXs]

/-- **the traverser performs the pre-order descent.**  For every JSON tree and every path of
child, parent and recursive steps (recursive steps in any position, any number of them),
driving the pointer-faithful machine until `StopIteration` yields exactly `eval steps root`
— in which a recursive step contributes the context container and its descendants in document
pre-order (`rec_last`, `rec_then`).  The builder rejects adjacent recursive steps; the
theorem does not even need that. -/
theorem machine_descends_in_preorder (steps : Array (Step J)) (src : Src J)
    (hff : ∀ s ∈ steps.toList, s.supported = true ∧ ∀ f, s ≠ .filter f)
    (limit : Nat) (st' st'' : St J) (rs : List (MNode J)) (E evs : List (Ev J))
    (hy : Yields J.view steps src limit freshIter rs E st')
    (hstop : next J.view steps src limit st' = (st'', evs, .stop)) :
    rs = eval steps.toList src.rootNode :=
  exhausted_all steps src (quiet_of_filterFree _ hff) (clean_of_filterFree steps (fun s hs => (hff s hs).2))
    limit st' st'' rs E evs hy hstop

/-- **each exactly once**: a trailing `rec` reports pairwise distinct locations (document with
unique keys per dict) -/
theorem rec_each_once (d : J) (hd : d.WFK) : ((eval [.recur] (.root d)).map MNode.loc).Nodup :=
  locations_distinct [.recur] d hd (quiet_of_filterFree _ (by intro s hs; simp at hs; subst hs; exact ⟨rfl, by intro f hf; cases hf⟩))
    (.inr ⟨[], [], rfl, by simp, by simp⟩)

/-- … also below a prefix of plain steps and in front of further plain steps: the remainder is
evaluated once per container, never twice at one location -/
theorem rec_nested_once (pre post : List (Step J)) (d : J) (hd : d.WFK) (hq : Quiet (pre ++ .recur :: post))
    (hpre : ∀ s ∈ pre, s.plain = true) (hpost : ∀ s ∈ post, s.plain = true) :
    ((eval (pre ++ .recur :: post) (.root d)).map MNode.loc).Nodup :=
  locations_distinct _ d hd hq (.inr ⟨pre, post, rfl, hpre, hpost⟩)

/-- non-vacuity: ragged document with empty containers -/
example : (eval [.recur] (.root (.obj [("a", .arr [.int 1, .obj []]), ("e", .obj []), ("f", .null)]))).map MNode.pathStr
    = ["$", "$.a", "$.a[0]", "$.a[1]", "$.e", "$.f"] := by decide

example : (eval [.recur, .idx 0] (.root (.arr [.arr [.int 7], .int 3]))).map MNode.pathStr
    = ["$[0]", "$[0][0]"] := by decide

end Treepath.C02
