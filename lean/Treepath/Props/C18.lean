import Treepath.Proofs.RefoldApi
import Treepath.Proofs.RefoldNested
import Treepath.Model.Descr
import Treepath.Proofs.MutateLemmas
import Treepath.Proofs.NaturalNext
/- C18 — descriptors are thin views over the wrapped document.
Most statements here are definitional unfoldings of a small model (said so in DESIGN.md);
the correspondence run carries the weight for this property. -/
namespace Treepath.C18

/-- assigning = the setter with `to_json_value` applied first, never cascading -/
theorem set_is_setter (c : Conv) (stepsOf : Heap → List (Step Val)) (h : Heap) (data wrapped : Val) :
    descrSet c stepsOf h data wrapped = setMatch stepsOf (.doc data) false h (c.unwrap wrapped) := rfl

/-- hence a failing assignment leaves the document unchanged and a successful one writes one
slot of one object (C08 through the descriptor) -/
theorem set_frame (c : Conv) (stepsOf : Heap → List (Step Val)) (h h' : Heap) (data wrapped : Val)
    (r : Except ApiErr (MNode Val)) (hr : descrSet c stepsOf h data wrapped = (h', r)) :
    (∀ e, r = .error e → h' = h) ∧
    (∀ m, r = .ok m → m.data = c.unwrap wrapped ∧ h'.size = h.size ∧ ∃ id : Nat, ∀ j : Nat, j ≠ id → h'[j]? = h[j]?) :=
  setMatchN_nocascade stepsOf (.doc data) _ h h' _ r hr

/-- `del` equals `pop` -/
theorem del_is_pop (stepsOf : Heap → List (Step Val)) (h : Heap) (data : Val) :
    descrDel stepsOf h data = pop stepsOf (.doc data) none h := rfl

/-- reading with the default getter = `get(expression, data)`: the first match's data, or
MatchNotFoundError -/
theorem get_is_getter (stepsOf : Heap → List (Step Val)) (h : Heap) (data : Val) (m : MNode Val)
    (hm : getMatch (wcx h) (stepsOf h).toArray (.doc data) true = .ok (some m)) :
    descrGet .get stepsOf h data = .ok (.value m.data) := by
  simp [descrGet, descrGetS, hm]

/-- a typed attribute wraps the selected JSON node itself, not a copy: the nested document's
data *is* the value the getter returned — for a container, the same object reference — so a
write through the typed object is a write to the original store -/
theorem typed_is_alias (stepsOf : Heap → List (Step Val)) (h : Heap) (data : Val) (m : MNode Val)
    (hm : getMatch (wcx h) (stepsOf h).toArray (.doc data) true = .ok (some m)) :
    typedData .get stepsOf h data = .ok m.data := by
  simp [typedData, typedDataS, descrGetS, hm]

/-- iterator-typed attributes reject assignment with SetError and leave the store unchanged -/
theorem iter_rejects_assignment (h : Heap) : descrSetIter h = (h, .error .setError) := rfl

/-- deprecated `pprop`: reads as `get(..., default=None)`, `mprop` as
`get_match(..., must_match=False)`; both assign with cascade -/
theorem pprop_read_default_none (stepsOf : Heap → List (Step Val)) (h : Heap) (data : Val)
    (hm : getMatch (wcx h) (stepsOf h).toArray (.doc data) false = .ok none) :
    ppropGet stepsOf h data = .ok (.atom .null) := by
  simp [ppropGet, hm]

theorem mprop_read (stepsOf : Heap → List (Step Val)) (h : Heap) (data : Val) :
    mpropGet stepsOf h data = getMatch (wcx h) (stepsOf h).toArray (.doc data) false := rfl

theorem pprop_assign_cascades (stepsOf : Heap → List (Step Val)) (h : Heap) (data v : Val) :
    ppropSet stepsOf h data v = setMatch stepsOf (.doc data) true h v := rfl

/-- reading an attribute with the default getter, against the definition: the value the
descriptor hands to `to_wrapped_value` is the object-store value at the location of the
definition's first result on the unfolded document, and it unfolds to that result's value —
for a typed attribute: the nested document wraps that very node -/
theorem attr_read_is_the_definitions_first (stepsOf : Heap → List (Step Val)) (h : Heap) (data : Val) (j : J)
    (hu : Unf h data j) (sb : Array (Step J)) (hsteps : LRel (StepRel (Unf h)) (stepsOf h) sb.toList)
    (hp : PredsClean sb) (v : Val) (hg : descrGet .get stepsOf h data = .ok (.value v)) :
    ∃ m', (evalE sb.toList (.root j)).1.head? = some m' ∧ Unf h v m'.data := by
  simp only [descrGet, descrGetS] at hg
  split at hg
  · rename_i m hm
    simp only [Except.ok.injEq, DOut.value.injEq] at hg
    subst hg
    obtain ⟨m', hrel, hhead⟩ := getMatch_heap_found h data j hu (stepsOf h).toArray sb (by simpa using hsteps) hp true m hm
    exact ⟨m', hhead, hrel.data⟩
  · simp at hg
  · simp at hg

/-- an attribute typed with `getter=get_match` wraps the Match: the attributes of the nested
document are searched *from that match* (`get(expr, match)`, `set_(expr, v, match)`,
`pop(expr, match)`), so a path that climbs with parent steps reaches above the wrapped node -/
theorem typed_through_get_match (stepsOf : Heap → List (Step Val)) (h : Heap) (src : Src Val) (m : MNode Val)
    (hm : getMatch (wcx h) (stepsOf h).toArray src true = .ok (some m))
    (inner : Heap → List (Step Val)) (c : Conv) (w : Val) :
    typedMatch stepsOf h src = .ok (.nested m) ∧
    descrGetS .get inner h (.nested m) =
      (match getMatch (wcx h) (inner h).toArray (.nested m) true with
       | .ok (some r) => .ok (.value r.data) | .ok none => .error (.bug "must_match") | .error e => .error e) ∧
    descrSetS c inner h (.nested m) w = setMatch inner (.nested m) false h (c.unwrap w) ∧
    descrDelS inner h (.nested m) = pop inner (.nested m) none h := by
  refine ⟨by simp [typedMatch, hm], rfl, rfl, rfl⟩

/-- **assigning through an attribute, on the JSON tree**: on a document that is a tree, a
successful assignment `inst.attr = w` (no cascade) makes the document unfold to the old tree
with `to_json_value(w)` at the attribute's location — the name of the path's last step inside
the first node its parent path selects — and nothing else changed (C08's
`set_is_one_tree_update` through the descriptor) -/
theorem attr_assignment_is_one_tree_update (c : Conv) (stepsOf : Heap → List (Step Val)) (root : Val) (j jv : J)
    (h h' : Heap) (w : Val) (m : MNode Val) (hi : DocInv h root j)
    (hv : UnfJ h jv (c.unwrap w)) (hvn : (fpJ h jv (c.unwrap w)).Nodup)
    (hfresh : ∀ x ∈ fpJ h jv (c.unwrap w), x ∉ fpJ h j root)
    (hset : descrSet c stepsOf h root w = (h', .ok m)) :
    ∃ pm nm j', m = .child pm nm (c.unwrap w) ∧ J.setAt j pm.loc nm jv = some j' ∧ DocInv h' root j' := by
  simp only [descrSet, descrSetS, setMatch] at hset
  cases hn : (stepsOf h).length with
  | zero => rw [hn] at hset; simp [setMatchN] at hset
  | succ n =>
    rw [hn] at hset
    obtain ⟨pm, nm, j', e1, _, e2, e3, _⟩ := setMatch_refines stepsOf root j jv n h h' _ m hi hv hvn hfresh hset
    exact ⟨pm, nm, j', e1, e2, e3⟩

/-- **`del inst.attr` on the JSON tree**: the entry is removed exactly as `pop` removes it -/
theorem attr_deletion_is_one_tree_update (stepsOf : Heap → List (Step Val)) (root : Val) (j : J) (h h' : Heap)
    (mm : Bool) (m : MNode Val) (hi : DocInv h root j)
    (hpop : popMatch stepsOf (.doc root) mm h = (h', .ok (some m))) :
    ∃ p nm j', m.parent = some p ∧ J.popAt j p.loc nm = some j' ∧ DocInv h' root j' := by
  obtain ⟨p, nm, j', e1, _, e2, e3, _⟩ := popMatch_refines stepsOf root j h h' mm m hi hpop
  exact ⟨p, nm, j', e1, e2, e3⟩

/-- **"changes made through the typed object are changes to the original document"**, on the JSON
tree: a typed attribute hands out a nested document over the node `mo` its path selects (the
node itself: `typed_is_alias`); assigning an attribute of that nested document (`nested.x = w`,
no cascade, fresh value) makes the *original* document unfold to the old tree with
`to_json_value(w)` at the location of the outer node followed by the inner attribute's location —
and changes nothing else; the document stays a tree, so this composes over any depth of nesting
and any history -/
theorem write_through_typed_object_is_one_tree_update (c : Conv) (outer inner : Heap → List (Step Val))
    (root : Val) (j jv : J) (h h' : Heap) (w : Val) (mo m : MNode Val) (hi : DocInv h root j)
    (hmo : getMatch (wcx h) (outer h).toArray (.doc root) true = .ok (some mo))
    (hv : UnfJ h jv (c.unwrap w)) (hvn : (fpJ h jv (c.unwrap w)).Nodup)
    (hfresh : ∀ x ∈ fpJ h jv (c.unwrap w), x ∉ fpJ h j root)
    (hset : descrSet c inner h mo.data w = (h', .ok m)) :
    typedData .get outer h root = .ok mo.data ∧
    ∃ (pm : MNode Val) (nm : Name) (j' : J), J.setAt j (mo.loc ++ pm.loc) nm jv = some j' ∧ DocInv h' root j' := by
  refine ⟨typed_is_alias outer h root mo hmo, ?_⟩
  have hgen := getMatch_gen (wcx h) (heapwf_keysUniq hi.wf) _ root true mo hmo
  simp only [descrSet, descrSetS, setMatch] at hset
  cases hn : (inner h).length with
  | zero => rw [hn] at hset; simp [setMatchN] at hset
  | succ n =>
    rw [hn] at hset
    obtain ⟨pm, nm, j', _, e2, e3, _⟩ := nested_set_refines inner root j jv n h h' _ mo m hi hgen hv hvn hfresh hset
    exact ⟨pm, nm, j', e2, e3⟩

/-- … and `del nested.x` removes the entry from the original document's tree -/
theorem delete_through_typed_object_is_one_tree_update (outer inner : Heap → List (Step Val))
    (root : Val) (j : J) (h h' : Heap) (mo m : MNode Val) (hi : DocInv h root j)
    (hmo : getMatch (wcx h) (outer h).toArray (.doc root) true = .ok (some mo))
    (hdel : popMatch inner (.doc mo.data) true h = (h', .ok (some m))) :
    ∃ p nm j', m.parent = some p ∧ J.popAt j (mo.loc ++ p.loc) nm = some j' ∧ DocInv h' root j' := by
  have hgen := getMatch_gen (wcx h) (heapwf_keysUniq hi.wf) _ root true mo hmo
  obtain ⟨p, nm, j', e1, _, e2, e3, _⟩ := nested_pop_refines inner root j h h' true mo m hi hgen hdel
  exact ⟨p, nm, j', e1, e2, e3⟩

end Treepath.C18
