import Treepath.Proofs.DocListLemmas
import Treepath.Proofs.RefoldList
/- C19 — a list-typed attribute behaves as the underlying list -/
namespace Treepath.C19

/-- `keep_all` — whose implementation compacts the list in place while a live iterator is
reading the same list — retains exactly the elements satisfying the predicate, in their
original order, each passed through `to_json_value ∘ to_wrapped_value` -/
theorem keep_all_is_filter (c : Conv) (keep : Val → Bool) (xs : List Val) :
    keepAllList (keepFn c keep) xs = (xs.filter (fun x => keep (c.wrap x))).map (fun x => c.unwrap (c.wrap x)) := by
  rw [keepAllList_eq]
  induction xs with
  | nil => rfl
  | cons x xs ih =>
    by_cases hk : keep (c.wrap x) = true
    · simp [List.filterMap_cons, keepFn, hk, List.filter_cons, ih]
    · simp only [Bool.not_eq_true] at hk
      simp [List.filterMap_cons, keepFn, hk, List.filter_cons, ih]

/-- `remove_all p` retains exactly the elements *not* satisfying `p` -/
theorem remove_all_is_filter (c : Conv) (rm : Val → Bool) (h : Heap) (id : Nat) (xs : List Val)
    (hl : listOf h id = some xs) :
    lRemoveAll c rm h id =
      some (hput h id (.list ((xs.filter (fun x => !rm (c.wrap x))).map (fun x => c.unwrap (c.wrap x))))) := by
  simp [lRemoveAll, lKeepAll, hl, keep_all_is_filter]

/-- every operation works in place on the document's own list object: it is the only object
written, nothing is allocated -/
theorem in_place (c : Conv) (h h' : Heap) (id : Nat) (i : Int) (v : Val) (keep : Val → Bool)
    (hop : lSet c h id i v = some h' ∨ lDel h id i = some h' ∨ lAppend c h id v = some h' ∨
           (∃ r, lPop c h id i = some (h', r)) ∨ lKeepAll c keep h id = some h') :
    h'.size = h.size ∧ ∀ j : Nat, j ≠ id → h'[j]? = h[j]? := by
  have key : ∀ o, h' = hput h id o → h'.size = h.size ∧ ∀ j : Nat, j ≠ id → h'[j]? = h[j]? := by
    intro o ho; subst ho; exact ⟨hput_size _ _ _, fun j hj => hput_other _ _ _ _ hj⟩
  rcases hop with hop | hop | hop | ⟨r, hop⟩ | hop
  · unfold lSet at hop
    cases hl : listOf h id with
    | none => simp [hl] at hop
    | some xs =>
      simp only [hl, Option.bind_some] at hop
      cases hs : listSet xs i (c.unwrap v) with
      | none => simp [hs] at hop
      | some xs' => simp [hs] at hop; exact key _ hop.symm
  · unfold lDel at hop
    cases hl : listOf h id with
    | none => simp [hl] at hop
    | some xs =>
      simp only [hl, Option.bind_some] at hop
      cases hs : listDel xs i with
      | none => simp [hs] at hop
      | some r => simp [hs] at hop; exact key _ hop.symm
  · unfold lAppend at hop
    cases hl : listOf h id with
    | none => simp [hl] at hop
    | some xs => simp [hl] at hop; exact key _ hop.symm
  · unfold lPop at hop
    cases hl : listOf h id with
    | none => simp [hl] at hop
    | some xs =>
      simp only [hl, Option.bind_some] at hop
      cases hs : listDel xs i with
      | none => simp [hs] at hop
      | some r => simp [hs] at hop; exact key _ hop.1.symm
  · unfold lKeepAll at hop
    cases hl : listOf h id with
    | none => simp [hl] at hop
    | some xs => simp [hl] at hop; exact key _ hop.symm

/-- reads are the plain-list reads with `to_wrapped_value` at the boundary -/
theorem get_is_list_get (c : Conv) (h : Heap) (id : Nat) (xs : List Val) (i : Int) (hl : listOf h id = some xs) :
    lGet c h id i = ((normIndex xs.length i).bind (xs[·]?)).map c.wrap := by
  simp [lGet, hl]

theorem len_is_list_len (h : Heap) (id : Nat) (xs : List Val) (hl : listOf h id = some xs) :
    lLen h id = some xs.length := by simp [lLen, hl]

theorem iter_is_list_iter (c : Conv) (h : Heap) (id : Nat) (xs : List Val) (hl : listOf h id = some xs) :
    lIter c h id = some (xs.map c.wrap) := by simp [lIter, hl]

/-- writes are the plain-list writes with `to_json_value` at the boundary -/
theorem set_is_list_set (c : Conv) (h : Heap) (id : Nat) (xs : List Val) (i : Int) (v : Val) (hl : listOf h id = some xs) :
    lSet c h id i v = (listSet xs i (c.unwrap v)).map fun xs' => hput h id (.list xs') := by
  simp [lSet, hl]

theorem append_is_list_append (c : Conv) (h : Heap) (id : Nat) (xs : List Val) (v : Val) (hl : listOf h id = some xs) :
    lAppend c h id v = some (hput h id (.list (xs ++ [c.unwrap v]))) := by
  simp [lAppend, hl]

theorem pop_is_list_pop (c : Conv) (h : Heap) (id : Nat) (xs : List Val) (i : Int) (hl : listOf h id = some xs) :
    lPop c h id i = (listDel xs i).map fun r => (hput h id (.list r.2), c.wrap r.1) := by
  simp [lPop, hl]

example : (keepAllList (keepFn { w := id, u := id } (fun v => match v with | .atom (.int i) => i > 1 | _ => false))
    [.atom (.int 3), .atom (.int 1), .atom (.int 2), .atom (.int 0), .atom (.int 5)]).map
      (fun v => match v with | .atom (.int i) => i | _ => -1) = [3, 2, 5] := by decide

/-! ### the view's operations, on the JSON tree -/

/-- **"the resulting JSON list equals that of the same operation on a plain list of the JSON
values"**, for `append`: on a document that is a tree, with the view's list sitting at `loc`,
`view.append(v)` makes the document unfold to the old tree with `to_json_value(v)` appended to
the JSON list at `loc` — everything else unchanged, the document still such a tree -/
theorem append_on_the_tree (c : Conv) (h h' : Heap) (id : Nat) (v : Val) (root : Val) (j jv : J) (loc : List Name)
    (hi : DocInv h root j) (hw : walk (hview h) root loc = some (.ref id))
    (hv : UnfJ h jv (c.unwrap v)) (hvn : (fpJ h jv (c.unwrap v)).Nodup)
    (hfresh : ∀ x ∈ fpJ h jv (c.unwrap v), x ∉ fpJ h j root)
    (hop : lAppend c h id v = some h') :
    ∃ j', J.updateAt (jAppend jv) j loc = some j' ∧ DocInv h' root j' :=
  lAppend_refines c h h' id v root j jv loc hi hw hv hvn hfresh hop

/-- `del view[i]` (and the list side of `view.pop(i)`) -/
theorem delete_on_the_tree (h h' : Heap) (id : Nat) (i : Int) (root : Val) (j : J) (loc : List Name)
    (hi : DocInv h root j) (hw : walk (hview h) root loc = some (.ref id)) (hop : lDel h id i = some h') :
    ∃ j', J.updateAt (jDelIdx i) j loc = some j' ∧ DocInv h' root j' :=
  lDel_refines h h' id i root j loc hi hw hop

/-- **`keep_all` / `remove_all` on the tree**: the JSON list at the view's location keeps exactly
the items at the positions where the predicate said "keep", in their original order (converters
that hand the JSON value back unchanged) -/
theorem keep_all_on_the_tree (c : Conv) (hc : ∀ x, c.unwrap (c.wrap x) = x) (keep : Val → Bool) (h h' : Heap) (id : Nat)
    (xs : List Val) (root : Val) (j : J) (loc : List Name)
    (hi : DocInv h root j) (hw : walk (hview h) root loc = some (.ref id)) (ho : h[id]? = some (.list xs))
    (hop : lKeepAll c keep h id = some h') :
    ∃ j', J.updateAt (jKeep (xs.map fun x => keep (c.wrap x))) j loc = some j' ∧ DocInv h' root j' :=
  lKeepAll_refines c hc keep h h' id xs root j loc hi hw ho hop

/-- `view[i] = v` on the tree (index in range, fresh value) -/
theorem assign_item_on_the_tree (c : Conv) (h h' : Heap) (id : Nat) (i : Int) (v : Val) (root : Val) (j jv : J)
    (loc : List Name) (hi : DocInv h root j) (hw : walk (hview h) root loc = some (.ref id))
    (hv : UnfJ h jv (c.unwrap v)) (hvn : (fpJ h jv (c.unwrap v)).Nodup)
    (hfresh : ∀ x ∈ fpJ h jv (c.unwrap v), x ∉ fpJ h j root)
    (hop : lSet c h id i v = some h') :
    ∃ j', J.updateAt (jSetIdx i jv) j loc = some j' ∧ DocInv h' root j' :=
  lSet_refines c h h' id i v root j jv loc hi hw hv hvn hfresh hop

/-- `view.pop(i)` on the tree: what `del view[i]` does to the document, handing back what
`view[i]` read -/
theorem pop_item_on_the_tree (c : Conv) (h h' : Heap) (id : Nat) (i : Int) (r : Val) (root : Val) (j : J)
    (loc : List Name) (hi : DocInv h root j) (hw : walk (hview h) root loc = some (.ref id))
    (hop : lPop c h id i = some (h', r)) :
    lDel h id i = some h' ∧ lGet c h id i = some r ∧
      ∃ j', J.updateAt (jDelIdx i) j loc = some j' ∧ DocInv h' root j' :=
  lPop_refines c h h' id i r root j loc hi hw hop

/-- `remove_all` on the tree -/
theorem remove_all_on_the_tree (c : Conv) (hc : ∀ x, c.unwrap (c.wrap x) = x) (rm : Val → Bool) (h h' : Heap) (id : Nat)
    (xs : List Val) (root : Val) (j : J) (loc : List Name)
    (hi : DocInv h root j) (hw : walk (hview h) root loc = some (.ref id)) (ho : h[id]? = some (.list xs))
    (hop : lRemoveAll c rm h id = some h') :
    ∃ j', J.updateAt (jKeep (xs.map fun x => !rm (c.wrap x))) j loc = some j' ∧ DocInv h' root j' :=
  lRemoveAll_refines c hc rm h h' id xs root j loc hi hw ho hop

/-- with a predicate that remembers what it has been asked: still one question per element,
front to back (the in-place loop = the plain-list comprehension, state included) -/
theorem keep_all_with_memory {σ : Type} (f : σ → Val → σ × Option Val) (s : σ) (xs : List Val) :
    keepAllListS f s xs = (filterMapS f s xs).1 :=
  keepAllListS_eq f s xs

end Treepath.C19
