import Treepath.Proofs.MutateLemmas
import Treepath.Proofs.NaturalNext
import Treepath.Proofs.AllocUnf
/- C08 — set_ assigns exactly one slot, or fails without a trace -/
namespace Treepath.C08

/-- success: exactly one object of the store is written (every other object keeps identity,
value and position), nothing is allocated, and the returned match holds `v` itself;
failure (SetError or an error raised while locating the parent): the store is unchanged. -/
theorem set_one_slot_or_nothing (stepsOf : Heap → List (Step Val)) (src : Src Val) (h h' : Heap) (v : Val)
    (r : Except ApiErr (MNode Val)) (hr : setMatch stepsOf src false h v = (h', r)) :
    (∀ e, r = .error e → h' = h) ∧
    (∀ m, r = .ok m → m.data = v ∧ h'.size = h.size ∧ ∃ id : Nat, ∀ j : Nat, j ≠ id → h'[j]? = h[j]?) :=
  setMatchN_nocascade stepsOf src _ h h' v r hr

/-- the object written is the container held by the first match of the parent path, the slot
is the one the last step names, and the match returned is a child of that parent match -/
theorem set_writes_parent_container (h h' : Heap) (s : Step Val) (pm m : MNode Val) (v : Val)
    (hs : vertexSet h s pm v = .ok (h', m)) :
    ∃ (id : Nat) (nm : Name), pm.data = .ref id ∧ m = .child pm nm v ∧ h'.size = h.size ∧
      ∀ j : Nat, j ≠ id → h'[j]? = h[j]? :=
  vertexSet_frame h h' s pm m v hs

/-- key on a dict: afterwards the dict holds `v` under `k`, every other key keeps its value
and position, a new key goes to the end -/
theorem set_key (h : Heap) (k : String) (pm : MNode Val) (v : Val) (id : Nat) (es : List (String × Val))
    (hd : pm.data = .ref id) (ho : h[id]? = some (.dict es)) :
    vertexSet h (.key k) pm v = .ok (hput h id (.dict (dictSet es k v)), .child pm (.key k) v) ∧
    (dictSet es k v).lookup k = some v ∧ (∀ k', k' ≠ k → (dictSet es k v).lookup k' = es.lookup k') ∧
    dictErase (dictSet es k v) k = dictErase es k := by
  refine ⟨by simp [vertexSet, hd, ho], dictSet_lookup_self _ _ _, fun k' hk => dictSet_lookup_other _ _ _ _ hk,
    dictSet_erase _ _ _⟩

/-- index on a list, in range (negative allowed): the item is replaced, the length and every
other item are unchanged -/
theorem set_index_in_range (h : Heap) (i : Int) (pm : MNode Val) (v : Val) (id kk : Nat) (xs : List Val)
    (hd : pm.data = .ref id) (ho : h[id]? = some (.list xs)) (hn : normIndex xs.length i = some kk) :
    vertexSet h (.idx i) pm v = .ok (hput h id (.list (xs.set kk v)), .child pm (.idx i) v) := by
  simp [vertexSet, hd, ho, listSet, hn]

/-- index equal to the length: the value is appended -/
theorem set_index_append (h : Heap) (pm : MNode Val) (v : Val) (id : Nat) (xs : List Val)
    (hd : pm.data = .ref id) (ho : h[id]? = some (.list xs)) :
    vertexSet h (.idx xs.length) pm v = .ok (hput h id (.list (xs ++ [v])), .child pm (.idx xs.length) v) := by
  have : normIndex xs.length (xs.length : Int) = none := by simp [normIndex]
  simp [vertexSet, hd, ho, listSet, this]

/-- index beyond the end or below `-len`: SetError -/
theorem set_index_out_of_range (h : Heap) (i : Int) (pm : MNode Val) (v : Val) (id : Nat) (xs : List Val)
    (hd : pm.data = .ref id) (ho : h[id]? = some (.list xs)) (hn : normIndex xs.length i = none)
    (hne : i ≠ xs.length) : vertexSet h (.idx i) pm v = .error .setError := by
  simp [vertexSet, hd, ho, listSet, hn, hne]

/-- key on a list, index on a dict, any step on a scalar, any other last step: SetError -/
theorem set_key_on_list (h : Heap) (k : String) (pm : MNode Val) (v : Val) (id : Nat) (xs : List Val)
    (hd : pm.data = .ref id) (ho : h[id]? = some (.list xs)) : vertexSet h (.key k) pm v = .error .setError := by
  simp [vertexSet, hd, ho]

theorem set_index_on_dict (h : Heap) (i : Int) (pm : MNode Val) (v : Val) (id : Nat) (es : List (String × Val))
    (hd : pm.data = .ref id) (ho : h[id]? = some (.dict es)) : vertexSet h (.idx i) pm v = .error .setError := by
  simp [vertexSet, hd, ho]

theorem set_other_step (h : Heap) (s : Step Val) (pm : MNode Val) (v : Val)
    (hs : match s with | .key _ | .idx _ => False | _ => True) : vertexSet h s pm v = .error .setError := by
  cases s <;> simp_all [vertexSet]

/-- the root cannot be assigned: SetError, store unchanged (fix F3) -/
theorem set_root (stepsOf : Heap → List (Step Val)) (src : Src Val) (cascade : Bool) (h : Heap) (v : Val)
    (hroot : stepsOf h = []) : setMatch stepsOf src cascade h v = (h, .error .setError) := by
  simp [setMatch, hroot, setMatchN]

/-- histories: any sequence of (non-cascading) assignments never allocates or removes objects -/
theorem history_size (ops : List ((Heap → List (Step Val)) × Val)) (src : Src Val) (h : Heap) :
    (ops.foldl (fun h op => (setMatch op.1 src false h op.2).1) h).size = h.size := by
  induction ops generalizing h with
  | nil => rfl
  | cons op ops ih =>
    simp only [List.foldl_cons]
    rw [ih]
    rcases hr : setMatch op.1 src false h op.2 with ⟨h', r⟩
    obtain ⟨he, hok⟩ := set_one_slot_or_nothing op.1 src h h' op.2 r hr
    cases r with
    | error e => simp [he e rfl]
    | ok m => exact (hok m rfl).2.1

/-- **"inside the first node matched by the parent path"**, against the definition: when a
non-cascading `set_` succeeds, the new match is a child of a node `pm` of the object store,
and `pm` is — location for location, value unfolding to value — the *first result of the
step-by-step definition* of the parent path evaluated on the JSON tree the document unfolds
to.  (Naturality of the traverser in the document type + the exception-faithful refinement;
the steps over the heap and over the tree are the same steps, filters being related
predicates.) -/
theorem set_parent_is_the_definitions_first (stepsOf : Heap → List (Step Val)) (root : Val) (j : J)
    (n : Nat) (h h' : Heap) (v : Val) (m : MNode Val) (hu : Unf h root j)
    (sb : Array (Step J)) (hsteps : LRel (StepRel (Unf h)) ((stepsOf h).take n) sb.toList) (hp : PredsClean sb)
    (hset : setMatchN stepsOf (.doc root) false (n+1) h v = (h', .ok m)) :
    ∃ pm pm' nm, m = .child pm nm v ∧ NodeRel (Unf h) pm pm' ∧ (evalE sb.toList (.root j)).1.head? = some pm' := by
  simp only [setMatchN] at hset
  split at hset
  · simp at hset
  · rename_i last _
    split at hset
    · rename_i pm hg
      obtain ⟨pm', hrel, hhead⟩ := getMatch_heap_found h root j hu ((stepsOf h).take n).toArray sb (by simpa using hsteps) hp true pm hg
      split at hset
      · rename_i h2 m2 hvs
        simp only [Prod.mk.injEq, Except.ok.injEq] at hset
        obtain ⟨_, rfl⟩ := hset
        -- the new match is a child of `pm`
        simp only [vertexSet] at hvs
        split at hvs
        · split at hvs
          · simp only [Except.ok.injEq, Prod.mk.injEq] at hvs; exact ⟨pm, pm', _, hvs.2.symm, hrel, hhead⟩
          · simp at hvs
        · split at hvs
          · split at hvs
            · simp only [Except.ok.injEq, Prod.mk.injEq] at hvs; exact ⟨pm, pm', _, hvs.2.symm, hrel, hhead⟩
            · split at hvs
              · simp only [Except.ok.injEq, Prod.mk.injEq] at hvs; exact ⟨pm, pm', _, hvs.2.symm, hrel, hhead⟩
              · simp at hvs
          · simp at hvs
        · simp at hvs
      · simp at hset
    · simp at hset
    · split at hset <;> simp at hset

/-- the premise of the theorem above is met by every document the correspondence runs on: a
document loaded into the object store unfolds to the JSON it was loaded from -/
theorem loaded_document_meets_the_premise (h : Heap) (j : J) : Unf (allocJ h j).1 (allocJ h j).2 j :=
  loaded_document_unfolds h j

/-- non-vacuity, computed: a two-level document -/
example : (match (allocJ #[] (.obj [("a", .arr [.int 1]), ("b", .null)])).2 with | .ref 1 => true | _ => false) = true := by decide

end Treepath.C08
