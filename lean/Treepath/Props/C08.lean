import Treepath.Proofs.MutateLemmas
import Treepath.Proofs.NaturalNext
import Treepath.Proofs.AllocUnf
import Treepath.Proofs.RefoldApi
/- C08 — set_ assigns exactly one slot, or fails without a trace -/
namespace Treepath.C08

/-- success: exactly one object of the store is written (every other object keeps identity,
value and position), nothing is allocated, and the returned match holds `v` itself;
failure (SetError or an error raised while locating the parent): the store is unchanged. -/
theorem set_one_slot_or_nothing (stepsOf : Heap → List (Step Val)) (src : Src Val) (h h' : Heap) (v : Val)
    (r : Except ApiErr (MNode Val)) (hr : setMatch stepsOf src false h v = (h', r)) :
    (∀ e, r = .error e → h' = h) ∧
    (∀ m, r = .ok m → m.data = v ∧ h'.size = h.size ∧ ∃ id : Nat, ∀ j : Nat, j ≠ id → h'[j]? = h[j]?) :=
  setMatchN_nocascade stepsOf src _ h h' v r hr

/-- the object written is the container held by the first match of the parent path, the slot
is the one the last step names, and the match returned is a child of that parent match -/
theorem set_writes_parent_container (h h' : Heap) (s : Step Val) (pm m : MNode Val) (v : Val)
    (hs : vertexSet h s pm v = .ok (h', m)) :
    ∃ (id : Nat) (nm : Name), pm.data = .ref id ∧ m = .child pm nm v ∧ h'.size = h.size ∧
      ∀ j : Nat, j ≠ id → h'[j]? = h[j]? :=
  vertexSet_frame h h' s pm m v hs

/-- key on a dict: afterwards the dict holds `v` under `k`, every other key keeps its value
and position, a new key goes to the end -/
theorem set_key (h : Heap) (k : String) (pm : MNode Val) (v : Val) (id : Nat) (es : List (String × Val))
    (hd : pm.data = .ref id) (ho : h[id]? = some (.dict es)) :
    vertexSet h (.key k) pm v = .ok (hput h id (.dict (dictSet es k v)), .child pm (.key k) v) ∧
    (dictSet es k v).lookup k = some v ∧ (∀ k', k' ≠ k → (dictSet es k v).lookup k' = es.lookup k') ∧
    dictErase (dictSet es k v) k = dictErase es k := by
  refine ⟨by simp [vertexSet, hd, ho], dictSet_lookup_self _ _ _, fun k' hk => dictSet_lookup_other _ _ _ _ hk,
    dictSet_erase _ _ _⟩

/-- index on a list, in range (negative allowed): the item is replaced, the length and every
other item are unchanged -/
theorem set_index_in_range (h : Heap) (i : Int) (pm : MNode Val) (v : Val) (id kk : Nat) (xs : List Val)
    (hd : pm.data = .ref id) (ho : h[id]? = some (.list xs)) (hn : normIndex xs.length i = some kk) :
    vertexSet h (.idx i) pm v = .ok (hput h id (.list (xs.set kk v)), .child pm (.idx i) v) := by
  simp [vertexSet, hd, ho, listSet, hn]

/-- index equal to the length: the value is appended -/
theorem set_index_append (h : Heap) (pm : MNode Val) (v : Val) (id : Nat) (xs : List Val)
    (hd : pm.data = .ref id) (ho : h[id]? = some (.list xs)) :
    vertexSet h (.idx xs.length) pm v = .ok (hput h id (.list (xs ++ [v])), .child pm (.idx xs.length) v) := by
  have : normIndex xs.length (xs.length : Int) = none := by simp [normIndex]
  simp [vertexSet, hd, ho, listSet, this]

/-- index beyond the end or below `-len`: SetError -/
theorem set_index_out_of_range (h : Heap) (i : Int) (pm : MNode Val) (v : Val) (id : Nat) (xs : List Val)
    (hd : pm.data = .ref id) (ho : h[id]? = some (.list xs)) (hn : normIndex xs.length i = none)
    (hne : i ≠ xs.length) : vertexSet h (.idx i) pm v = .error .setError := by
  simp [vertexSet, hd, ho, listSet, hn, hne]

/-- key on a list, index on a dict, any step on a scalar, any other last step: SetError -/
theorem set_key_on_list (h : Heap) (k : String) (pm : MNode Val) (v : Val) (id : Nat) (xs : List Val)
    (hd : pm.data = .ref id) (ho : h[id]? = some (.list xs)) : vertexSet h (.key k) pm v = .error .setError := by
  simp [vertexSet, hd, ho]

theorem set_index_on_dict (h : Heap) (i : Int) (pm : MNode Val) (v : Val) (id : Nat) (es : List (String × Val))
    (hd : pm.data = .ref id) (ho : h[id]? = some (.dict es)) : vertexSet h (.idx i) pm v = .error .setError := by
  simp [vertexSet, hd, ho]

theorem set_other_step (h : Heap) (s : Step Val) (pm : MNode Val) (v : Val)
    (hs : match s with | .key _ | .idx _ => False | _ => True) : vertexSet h s pm v = .error .setError := by
  cases s <;> simp_all [vertexSet]

/-- the root cannot be assigned: SetError, store unchanged (fix F3) -/
theorem set_root (stepsOf : Heap → List (Step Val)) (src : Src Val) (cascade : Bool) (h : Heap) (v : Val)
    (hroot : stepsOf h = []) : setMatch stepsOf src cascade h v = (h, .error .setError) := by
  simp [setMatch, hroot, setMatchN]

/-- histories: any sequence of (non-cascading) assignments never allocates or removes objects -/
theorem history_size (ops : List ((Heap → List (Step Val)) × Val)) (src : Src Val) (h : Heap) :
    (ops.foldl (fun h op => (setMatch op.1 src false h op.2).1) h).size = h.size := by
  induction ops generalizing h with
  | nil => rfl
  | cons op ops ih =>
    simp only [List.foldl_cons]
    rw [ih]
    rcases hr : setMatch op.1 src false h op.2 with ⟨h', r⟩
    obtain ⟨he, hok⟩ := set_one_slot_or_nothing op.1 src h h' op.2 r hr
    cases r with
    | error e => simp [he e rfl]
    | ok m => exact (hok m rfl).2.1

/-- **"inside the first node matched by the parent path"**, against the definition: when a
non-cascading `set_` succeeds, the new match is a child of a node `pm` of the object store,
and `pm` is — location for location, value unfolding to value — the *first result of the
step-by-step definition* of the parent path evaluated on the JSON tree the document unfolds
to.  (Naturality of the traverser in the document type + the exception-faithful refinement;
the steps over the heap and over the tree are the same steps, filters being related
predicates.) -/
theorem set_parent_is_the_definitions_first (stepsOf : Heap → List (Step Val)) (root : Val) (j : J)
    (n : Nat) (h h' : Heap) (v : Val) (m : MNode Val) (hu : Unf h root j)
    (sb : Array (Step J)) (hsteps : LRel (StepRel (Unf h)) ((stepsOf h).take n) sb.toList) (hp : PredsClean sb)
    (hset : setMatchN stepsOf (.doc root) false (n+1) h v = (h', .ok m)) :
    ∃ pm pm' nm, m = .child pm nm v ∧ NodeRel (Unf h) pm pm' ∧ (evalE sb.toList (.root j)).1.head? = some pm' := by
  simp only [setMatchN] at hset
  split at hset
  · simp at hset
  · rename_i last _
    split at hset
    · rename_i pm hg
      obtain ⟨pm', hrel, hhead⟩ := getMatch_heap_found h root j hu ((stepsOf h).take n).toArray sb (by simpa using hsteps) hp true pm hg
      split at hset
      · rename_i h2 m2 hvs
        simp only [Prod.mk.injEq, Except.ok.injEq] at hset
        obtain ⟨_, rfl⟩ := hset
        -- the new match is a child of `pm`
        simp only [vertexSet] at hvs
        split at hvs
        · split at hvs
          · simp only [Except.ok.injEq, Prod.mk.injEq] at hvs; exact ⟨pm, pm', _, hvs.2.symm, hrel, hhead⟩
          · simp at hvs
        · split at hvs
          · split at hvs
            · simp only [Except.ok.injEq, Prod.mk.injEq] at hvs; exact ⟨pm, pm', _, hvs.2.symm, hrel, hhead⟩
            · split at hvs
              · simp only [Except.ok.injEq, Prod.mk.injEq] at hvs; exact ⟨pm, pm', _, hvs.2.symm, hrel, hhead⟩
              · simp at hvs
          · simp at hvs
        · simp at hvs
      · simp at hset
    · simp at hset
    · split at hset <;> simp at hset

/-- the premise of the theorem above is met by every document the correspondence runs on: a
document loaded into the object store unfolds to the JSON it was loaded from -/
theorem loaded_document_meets_the_premise (h : Heap) (j : J) : Unf (allocJ h j).1 (allocJ h j).2 j :=
  loaded_document_unfolds h j

/-- non-vacuity, computed: a two-level document -/
example : (match (allocJ #[] (.obj [("a", .arr [.int 1]), ("b", .null)])).2 with | .ref 1 => true | _ => false) = true := by decide

/-! ### `set_` as an update of the JSON tree (refinement of the object store to `Spec/TreeWrite`) -/

/-- **exactly one slot, said on the tree**: on a document that is a tree (`DocInv`: it unfolds
to `j`, no container object is reachable along two paths, dict keys are unique), a successful
non-cascading `set_` of a value `v ~ jv` that shares no object with the document makes the
document unfold to `J.setAt j pm.loc nm jv` — `j` with `jv` under the last name inside the
node at the location of the first match `pm` of the parent path, every other part of `j` as it
was — and the document is again such a tree. -/
theorem set_is_one_tree_update (stepsOf : Heap → List (Step Val)) (root : Val) (j jv : J) (n : Nat) (h h' : Heap)
    (v : Val) (m : MNode Val) (hi : DocInv h root j)
    (hv : UnfJ h jv v) (hvn : (fpJ h jv v).Nodup) (hfresh : ∀ x ∈ fpJ h jv v, x ∉ fpJ h j root)
    (hset : setMatchN stepsOf (.doc root) false (n+1) h v = (h', .ok m)) :
    ∃ pm nm j', m = .child pm nm v ∧ J.setAt j pm.loc nm jv = some j' ∧ DocInv h' root j' := by
  obtain ⟨pm, nm, j', e1, _, e2, e3, _⟩ := setMatch_refines stepsOf root j jv n h h' v m hi hv hvn hfresh hset
  exact ⟨pm, nm, j', e1, e2, e3⟩

/-- … and that location is the location of the *definition's* first result for the parent
path on the tree `j` (naturality of the traverser + genuineness of its matches) -/
theorem set_updates_the_definitions_location (stepsOf : Heap → List (Step Val)) (root : Val) (j jv : J) (n : Nat)
    (h h' : Heap) (v : Val) (m : MNode Val) (hi : DocInv h root j)
    (hv : UnfJ h jv v) (hvn : (fpJ h jv v).Nodup) (hfresh : ∀ x ∈ fpJ h jv v, x ∉ fpJ h j root)
    (sb : Array (Step J)) (hsteps : LRel (StepRel (Unf h)) ((stepsOf h).take n) sb.toList) (hp : PredsClean sb)
    (hset : setMatchN stepsOf (.doc root) false (n+1) h v = (h', .ok m)) :
    ∃ pm' nm j', (evalE sb.toList (.root j)).1.head? = some pm' ∧ J.setAt j pm'.loc nm jv = some j' ∧
      DocInv h' root j' := by
  obtain ⟨pm, nm, j', _, hg, e2, e3, _⟩ := setMatch_refines stepsOf root j jv n h h' v m hi hv hvn hfresh hset
  obtain ⟨pm', hrel, hhead⟩ := getMatch_heap_found h root j hi.unf ((stepsOf h).take n).toArray sb (by simpa using hsteps) hp true pm hg
  exact ⟨pm', nm, j', hhead, by rw [← hrel.loc]; exact e2, e3⟩

/-- assigning a JSON value (loaded into the store by the call): only unique keys are assumed of it -/
theorem set_of_a_json_value (stepsOf : Heap → List (Step Val)) (root : Val) (j jv : J) (n : Nat) (h h' : Heap)
    (m : MNode Val) (hi : DocInv h root j) (hjv : jv.WFK)
    (hset : setMatchN stepsOf (.doc root) false (n+1) (allocJ h jv).1 (allocJ h jv).2 = (h', .ok m)) :
    ∃ pm nm j', m = .child pm nm (allocJ h jv).2 ∧ J.setAt j pm.loc nm jv = some j' ∧ DocInv h' root j' :=
  set_fresh_refines stepsOf root j jv n h h' m hi hjv hset

/-- a loaded JSON document (unique keys per object) is such a tree -/
theorem loaded_document_is_a_tree (j : J) (hj : j.WFK) : DocInv (allocJ #[] j).1 (allocJ #[] j).2 j :=
  loaded_inv j hj

/-- **histories**: any sequence of `set_` (of JSON values) and `pop` operations, successful or
not, keeps the document a tree — aliasing never appears, so the one-slot theorems apply at
every step -/
theorem histories_keep_the_document_a_tree (root : Val) (ops : List WOp) (hops : ∀ op ∈ ops, op.valuesWF)
    (h : Heap) (j : J) (hi : DocInv h root j) : ∃ j', DocInv (ops.foldl (WOp.run root) h) root j' :=
  Treepath.histories_keep_the_document_a_tree root ops hops h j hi

/-- the tree-level update, computed: `set_(path.a[1], 5, {"a": [1], "b": null})` -/
example : J.setAt (.obj [("a", .arr [.int 1]), ("b", .null)]) [.key "a"] (.idx 1) (.int 5)
    = some (.obj [("a", .arr [.int 1, .int 5]), ("b", .null)]) := by
  simp [J.setAt, J.updateAt, childAt, J.view, List.lookup, J.setName, normIndex, J.putChild, kvsSet]

end Treepath.C08
