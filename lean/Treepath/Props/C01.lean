import Treepath.Proofs.Drive
import Treepath.Proofs.EvalLemmas
import Treepath.Proofs.Budget
/-
C01 — child-step selection is exact, ordered and by reference.
Property theorems only (helper lemmas live in Proofs/).
-/
namespace Treepath.C01

/-- a key step selects the value stored under that key of a dict, and nothing else -/
theorem key_on_dict (k : String) (n : MNode J) (es : List (String × J)) (h : n.data = .obj es) :
    evalStep (.key k) n = (((es.lookup k).map fun x => MNode.child n (.key k) x).toList, none) := by
  simp [evalStep, Step.cls, singleOf, J.view, h]

/-- an index step selects `xs[i]` with Python's negative-index rule, nothing when out of range -/
theorem idx_on_list (i : Int) (n : MNode J) (xs : List J) (h : n.data = .arr xs) :
    evalStep (.idx i) n = (((getPy? xs i).map fun x => MNode.child n (.idx i) x).toList, none) := by
  simp [evalStep, Step.cls, singleOf, J.view, h]

/-- the key wildcard selects every member of a dict in insertion order -/
theorem keyWc_on_dict (n : MNode J) (es : List (String × J)) (h : n.data = .obj es) :
    evalStep .keyWc n = (es.map (fun (k, x) => MNode.child n (.key k) x), none) := by
  simp [evalStep, Step.cls, itemsOf, J.view, h, dictItems, List.map_map, Function.comp_def]

/-- the index wildcard selects every item of a list in index order -/
theorem idxWc_on_list (n : MNode J) (xs : List J) (h : n.data = .arr xs) :
    evalStep .idxWc n = ((enumFrom 0 xs).map (fun (i, x) => MNode.child n (.idx i) x), none) := by
  simp [evalStep, Step.cls, itemsOf, J.view, h, listItems, List.map_map, Function.comp_def]

/-- a comma-delimited step on a dict: the listed keys in the order written, repeats repeated,
absent keys and integer entries skipped -/
theorem tuple_on_dict (ns : List Name) (n : MNode J) (es : List (String × J)) (h : n.data = .obj es) :
    evalStep (.tuple ns) n =
      (ns.filterMap (fun nm => match nm with
        | .key k => (es.lookup k).map (fun x => MNode.child n nm x)
        | .idx _ => none), none) := by
  simp only [evalStep, Step.cls, itemsOf, J.view, h]
  congr 1
  induction ns with
  | nil => rfl
  | cons nm ns ih =>
    cases nm with
    | key k => cases hk : es.lookup k <;> simp [List.filterMap_cons, hk, ih]
    | idx i => simp [List.filterMap_cons, ih]

/-- a comma-delimited step on a list: the listed indices in the order written, negative
indices as Python resolves them, out-of-range and string entries skipped; the reported
`data_name` is the index as written -/
theorem tuple_on_list (ns : List Name) (n : MNode J) (xs : List J) (h : n.data = .arr xs) :
    evalStep (.tuple ns) n =
      (ns.filterMap (fun nm => match nm with
        | .idx i => (getPy? xs i).map (fun x => MNode.child n nm x)
        | .key _ => none), none) := by
  simp only [evalStep, Step.cls, itemsOf, J.view, h]
  congr 1
  induction ns with
  | nil => rfl
  | cons nm ns ih =>
    cases nm with
    | idx i => cases hk : getPy? xs i <;> simp [List.filterMap_cons, hk, ih]
    | key k => simp [List.filterMap_cons, ih]

/-- any child step applied to a scalar selects nothing — and does not fail -/
theorem wrong_kind_scalar (s : Step J) (n : MNode J) (hs : s.isChild = true)
    (h : n.data.isContainer = false) :
    evalStep s n = ([], none) := by
  cases hd : n.data <;> simp [hd, J.isContainer] at h <;>
    cases s <;> simp_all [evalStep, Step.cls, Step.isChild, singleOf, itemsOf, J.view]

/-- a key step on a list, an index step on a dict: nothing, no failure -/
theorem key_on_list (k : String) (n : MNode J) (xs : List J) (h : n.data = .arr xs) :
    evalStep (.key k) n = ([], none) := by
  simp [evalStep, Step.cls, singleOf, J.view, h]

theorem idx_on_dict (i : Int) (n : MNode J) (es : List (String × J)) (h : n.data = .obj es) :
    evalStep (.idx i) n = ([], none) := by
  simp [evalStep, Step.cls, singleOf, J.view, h]

/-- **the traverser yields exactly what the definition selects.**  For every JSON document
and every path of child steps (any number of multi-valued steps, whose iterations nest and
are resumed through copied / restored resume pointers), driving the pointer-faithful machine
model with `next()` until `StopIteration` yields exactly `eval steps root`: same nodes, same
order, one result per derivation.  (Zero slice steps are not supported steps.) -/
theorem machine_yields_definition (steps : Array (Step J)) (d : J)
    (hchild : ∀ s ∈ steps.toList, s.isChild = true ∧ s.supported = true)
    (limit : Nat) (st' st'' : St J) (rs : List (MNode J)) (E evs : List (Ev J))
    (hy : Yields J.view steps (.doc d) limit freshIter rs E st')
    (hstop : next J.view steps (.doc d) limit st' = (st'', evs, .stop)) :
    rs = eval steps.toList (.root d) := by
  have hff : ∀ s ∈ steps.toList, ∀ f, s ≠ .filter f := by
    intro s hs f hf; have := (hchild s hs).1; rw [hf] at this; simp [Step.isChild] at this
  exact exhausted_all steps (.doc d) (quiet_of_filterFree _ (fun s hs => ⟨(hchild s hs).2, hff s hs⟩))
    (clean_of_filterFree steps hff) limit st' st'' rs E evs hy hstop

/-- the same as one equation, with the budget made explicit: `list(find_matches(p, d))`
(the model's `drain` with the real, source-generated budget) **is** `eval p d` for every
document and every path of child steps whose definition needs fewer than `(budget - 3) / 6`
examinations; no error, no premise about the run -/
theorem list_find_matches_is_definition (steps : Array (Step J)) (d : J)
    (hchild : ∀ s ∈ steps.toList, s.isChild = true ∧ s.supported = true)
    (hb : 6 * exams steps.toList (.root d) + 3 < Generated.loopBudget) (fuel : Nat)
    (hf : (eval steps.toList (.root d)).length < fuel) :
    drain ({ view := J.view, toJ := id } : Ctx J) steps (.doc d) fuel freshIter = (eval steps.toList (.root d), none) := by
  have hff : ∀ s ∈ steps.toList, ∀ f, s ≠ .filter f := by
    intro s hs f hf; have := (hchild s hs).1; rw [hf] at this; simp [Step.isChild] at this
  exact drain_is_eval steps (.doc d) { view := J.view, toJ := id } rfl
    (quiet_of_filterFree _ (fun s hs => ⟨(hchild s hs).2, hff s hs⟩)) (clean_of_filterFree steps hff)
    (fun s hs f hf => absurd hf (hff s hs f)) hb fuel freshIter [] [] _ (.nil _) (by simp [Src.rootNode]) hf

/-- "by reference": every node a child step selects is a `child` of the context carrying a
value that *is* one of the context container's own members (the model's values are the
document's own sub-terms; object identity itself is checked on the python side) -/
theorem child_value_is_member (s : Step J) (n m : MNode J) (hs : s.isChild = true)
    (hm : m ∈ (evalStep s n).1) :
    ∃ nm, m = .child n nm m.data ∧
      ((∃ es, n.data = .obj es ∧ m.data ∈ es.map Prod.snd) ∨ (∃ xs, n.data = .arr xs ∧ m.data ∈ xs)) := by
  have lookup_mem : ∀ (es : List (String × J)) (k : String) (x : J), es.lookup k = some x → x ∈ es.map Prod.snd := by
    intro es k x h
    induction es with
    | nil => simp at h
    | cons e es ih =>
      obtain ⟨k', v⟩ := e
      simp only [List.lookup] at h
      split at h
      · simp at h; simp [h]
      · simp [ih h]
  have getPy_mem : ∀ (xs : List J) (i : Int) (x : J), getPy? xs i = some x → x ∈ xs := by
    intro xs i x h
    unfold getPy? at h
    split at h
    · exact List.mem_of_getElem? h
    · split at h
      · exact List.mem_of_getElem? h
      · simp at h
  have enum_mem : ∀ (xs : List J) (i : Nat) (p : Nat × J), p ∈ enumFrom i xs → p.2 ∈ xs := by
    intro xs
    induction xs with
    | nil => intro i p h; simp [enumFrom] at h
    | cons y ys ih =>
      intro i p h
      simp only [enumFrom, List.mem_cons] at h
      rcases h with rfl | h
      · simp
      · exact List.mem_cons_of_mem _ (ih _ _ h)
  cases s <;> simp [Step.isChild] at hs
  case key k =>
    cases hd : n.data <;> simp [evalStep, Step.cls, singleOf, J.view, hd] at hm
    rename_i es
    obtain ⟨x, hx, rfl⟩ := hm
    exact ⟨.key k, rfl, .inl ⟨es, rfl, lookup_mem es k x hx⟩⟩
  case idx i =>
    cases hd : n.data <;> simp [evalStep, Step.cls, singleOf, J.view, hd] at hm
    rename_i xs
    obtain ⟨x, hx, rfl⟩ := hm
    exact ⟨.idx i, rfl, .inr ⟨xs, rfl, getPy_mem xs i x hx⟩⟩
  case keyWc =>
    cases hd : n.data <;> simp [evalStep, Step.cls, itemsOf, J.view, hd, dictItems] at hm
    rename_i es
    obtain ⟨k, x, hx, rfl⟩ := hm
    exact ⟨.key k, rfl, .inl ⟨es, rfl, by simp only [MNode.data, List.mem_map]; exact ⟨(k, x), hx, rfl⟩⟩⟩
  case idxWc =>
    cases hd : n.data <;> simp [evalStep, Step.cls, itemsOf, J.view, hd, listItems] at hm
    rename_i xs
    obtain ⟨i, x, hx, rfl⟩ := hm
    exact ⟨.idx i, rfl, .inr ⟨xs, rfl, enum_mem xs 0 (i, x) hx⟩⟩
  case gwc =>
    cases hd : n.data <;> simp [evalStep, Step.cls, itemsOf, J.view, hd, dictItems, listItems] at hm
    · rename_i xs
      obtain ⟨i, x, hx, rfl⟩ := hm
      exact ⟨.idx i, rfl, .inr ⟨xs, rfl, enum_mem xs 0 (i, x) hx⟩⟩
    · rename_i es
      obtain ⟨k, x, hx, rfl⟩ := hm
      exact ⟨.key k, rfl, .inl ⟨es, rfl, by simp only [MNode.data, List.mem_map]; exact ⟨(k, x), hx, rfl⟩⟩⟩
  case tuple ns =>
    cases hd : n.data <;> simp [evalStep, Step.cls, itemsOf, J.view, hd] at hm
    · rename_i xs
      obtain ⟨nm, x, hx, rfl⟩ := hm
      obtain ⟨nm', _, hx'⟩ := hx
      cases nm' <;> simp at hx'
      exact ⟨_, rfl, .inr ⟨xs, rfl, getPy_mem xs _ _ hx'.1⟩⟩
    · rename_i es
      obtain ⟨nm, x, hx, rfl⟩ := hm
      obtain ⟨nm', _, hx'⟩ := hx
      cases nm' <;> simp at hx'
      exact ⟨_, rfl, .inl ⟨es, rfl, lookup_mem es _ _ hx'.1⟩⟩
  case slice a b c =>
    cases hd : n.data <;> simp [evalStep, Step.cls, itemsOf, J.view, hd] at hm
    rename_i xs
    cases hsl : sliceItems a b c xs with
    | none => simp [hsl] at hm
    | some its =>
      simp only [hsl, List.map_map, List.mem_map, Function.comp] at hm
      obtain ⟨p, hp, rfl⟩ := hm
      refine ⟨.idx p.1, rfl, .inr ⟨xs, rfl, ?_⟩⟩
      unfold sliceItems at hsl
      cases hsi : sliceIndices a b c xs.length with
      | none => simp [hsi] at hsl
      | some r =>
        simp only [hsi, Option.some.injEq] at hsl
        subst hsl
        simp only [List.mem_filterMap] at hp
        obtain ⟨i, _, hi⟩ := hp
        cases hx : xs[i.toNat]? with
        | none => simp [hx] at hi
        | some x => simp [hx] at hi; subst hi; exact List.mem_of_getElem? hx

/-- non-vacuity: a concrete document and path with nested multi-valued steps -/
example : (eval [.keyWc, .idxWc] (.root (.obj [("a", .arr [.int 1, .int 2]), ("b", .arr [.null])]))).map MNode.pathStr
    = ["$.a[0]", "$.a[1]", "$.b[0]"] := by decide

end Treepath.C01
