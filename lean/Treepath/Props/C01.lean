import Treepath.Proofs.EvalLemmas
/-
C01 — child-step selection is exact, ordered and by reference.
Property theorems only (helper lemmas live in Proofs/).
-/
namespace Treepath.C01

/-- a key step selects the value stored under that key of a dict, and nothing else -/
theorem key_on_dict (k : String) (n : MNode J) (es : List (String × J)) (h : n.data = .obj es) :
    evalStep (.key k) n = (((es.lookup k).map fun x => MNode.child n (.key k) x).toList, none) := by
  simp [evalStep, Step.cls, singleOf, J.view, h]

/-- an index step selects `xs[i]` with Python's negative-index rule, nothing when out of range -/
theorem idx_on_list (i : Int) (n : MNode J) (xs : List J) (h : n.data = .arr xs) :
    evalStep (.idx i) n = (((getPy? xs i).map fun x => MNode.child n (.idx i) x).toList, none) := by
  simp [evalStep, Step.cls, singleOf, J.view, h]

/-- the key wildcard selects every member of a dict in insertion order -/
theorem keyWc_on_dict (n : MNode J) (es : List (String × J)) (h : n.data = .obj es) :
    evalStep .keyWc n = (es.map (fun (k, x) => MNode.child n (.key k) x), none) := by
  simp [evalStep, Step.cls, itemsOf, J.view, h, dictItems, List.map_map, Function.comp_def]

/-- the index wildcard selects every item of a list in index order -/
theorem idxWc_on_list (n : MNode J) (xs : List J) (h : n.data = .arr xs) :
    evalStep .idxWc n = ((enumFrom 0 xs).map (fun (i, x) => MNode.child n (.idx i) x), none) := by
  simp [evalStep, Step.cls, itemsOf, J.view, h, listItems, List.map_map, Function.comp_def]

/-- a comma-delimited step on a dict: the listed keys in the order written, repeats repeated,
absent keys and integer entries skipped -/
theorem tuple_on_dict (ns : List Name) (n : MNode J) (es : List (String × J)) (h : n.data = .obj es) :
    evalStep (.tuple ns) n =
      (ns.filterMap (fun nm => match nm with
        | .key k => (es.lookup k).map (fun x => MNode.child n nm x)
        | .idx _ => none), none) := by
  simp only [evalStep, Step.cls, itemsOf, J.view, h]
  congr 1
  induction ns with
  | nil => rfl
  | cons nm ns ih =>
    cases nm with
    | key k => cases hk : es.lookup k <;> simp [List.filterMap_cons, hk, ih]
    | idx i => simp [List.filterMap_cons, ih]

/-- a comma-delimited step on a list: the listed indices in the order written, negative
indices as Python resolves them, out-of-range and string entries skipped; the reported
`data_name` is the index as written -/
theorem tuple_on_list (ns : List Name) (n : MNode J) (xs : List J) (h : n.data = .arr xs) :
    evalStep (.tuple ns) n =
      (ns.filterMap (fun nm => match nm with
        | .idx i => (getPy? xs i).map (fun x => MNode.child n nm x)
        | .key _ => none), none) := by
  simp only [evalStep, Step.cls, itemsOf, J.view, h]
  congr 1
  induction ns with
  | nil => rfl
  | cons nm ns ih =>
    cases nm with
    | idx i => cases hk : getPy? xs i <;> simp [List.filterMap_cons, hk, ih]
    | key k => simp [List.filterMap_cons, ih]

/-- any child step applied to a scalar selects nothing — and does not fail -/
theorem wrong_kind_scalar (s : Step J) (n : MNode J) (hs : s.isChild = true)
    (h : n.data.isContainer = false) :
    evalStep s n = ([], none) := by
  cases hd : n.data <;> simp [hd, J.isContainer] at h <;>
    cases s <;> simp_all [evalStep, Step.cls, Step.isChild, singleOf, itemsOf, J.view]

/-- a key step on a list, an index step on a dict: nothing, no failure -/
theorem key_on_list (k : String) (n : MNode J) (xs : List J) (h : n.data = .arr xs) :
    evalStep (.key k) n = ([], none) := by
  simp [evalStep, Step.cls, singleOf, J.view, h]

theorem idx_on_dict (i : Int) (n : MNode J) (es : List (String × J)) (h : n.data = .obj es) :
    evalStep (.idx i) n = ([], none) := by
  simp [evalStep, Step.cls, singleOf, J.view, h]

/-- non-vacuity: a concrete document and path with nested multi-valued steps -/
example : (eval [.keyWc, .idxWc] (.root (.obj [("a", .arr [.int 1, .int 2]), ("b", .arr [.null])]))).map MNode.pathStr
    = ["$.a[0]", "$.a[1]", "$.b[0]"] := by decide

end Treepath.C01
