import Treepath.Proofs.BuilderLemmas
/- C15 — path expressions are immutable values with equivalent spellings -/
namespace Treepath.C15

/-- extending a path returns a *new* expression: one vertex is allocated and no field of any
existing vertex is written, so every expression built before keeps its steps -/
theorem extend_is_fresh (st : VStore) (hw : WF st) (e : Expr) (k : VKind) (he : e.v < st.size) :
    (∀ v : Nat, v < st.size → (extend st e k).1[v]? = st[v]?) ∧ (extend st e k).2.v = st.size ∧ WF (extend st e k).1 := by
  obtain ⟨h1, h2, h3, _⟩ := extend_wf st hw e k he
  exact ⟨h2, h3, h1⟩

/-- … and keeps its rendering: the rendering of an older expression is the same function of
its own chain before and after the extension -/
theorem extend_keeps_rendering (st : VStore) (hw : WF st) (e : Expr) (k : VKind) (v : Nat) (hv : v < st.size) :
    renderPure (extend st e k).1 v = renderPure st v :=
  renderPure_push st hw _ v hv

/-- rendering (which fills caches) returns the pure rendering of the expression's own steps
whatever was rendered, evaluated or derived before, and changes no step of any expression -/
theorem render_history_independent (st : VStore) (hw : WF st) (v : Nat) (hv : v < st.size) :
    (render st v).2 = renderPure st v ∧ WF (render st v).1 ∧ SameShape st (render st v).1 :=
  render_spec st hw v hv

/-- the step list handed to the traverser (which fills `_path_as_list`) is the expression's
own chain whatever the cache state: selection is history-independent too -/
theorem path_as_list_history_independent (st : VStore) (hw : WF st) (v : Nat) (hv : v < st.size) :
    (pathAsList st v).2 = chain st v ∧ WF (pathAsList st v).1 ∧ SameShape st (pathAsList st v).1 :=
  pathAsList_spec st hw v hv

/-- stores of the same shape (differing only in caches) give every expression the same steps
and the same rendering: "expressions built by the same steps render and select identically" -/
theorem same_shape_same_meaning {α} (preds : String → Pred α) (st st' : VStore) (h : SameShape st st') (v : Nat) :
    renderPure st' v = renderPure st v ∧ stepsOfExpr preds st' v = stepsOfExpr preds st v := by
  refine ⟨renderPure_sameShape h v, ?_⟩
  have : (fun u => kindToStep preds (kindOfV st' u)) = fun u => kindToStep preds (kindOfV st u) := by
    funext u; rw [kindOfV_sameShape h]
  simp only [stepsOfExpr, chain_sameShape h, this]

/-! ### equivalent spellings -/

/-- the generated tables contain the builder's own step-producing attributes (checked on the
tables regenerated from the source) -/
theorem reserved_names :
    (∀ n ∈ ["wc", "wildcard", "gwc", "generic_wildcard", "rec", "recursive", "parent", "shape"],
      n ∈ Generated.reservedAttrs ∧ n ∈ Generated.reservedAttrsDash) := by decide

/-- the attribute names the builder documents as its own: the step-producing properties, the
two hook methods and one class constant -/
def documentedAttrs : List String :=
  ["wc", "wildcard", "gwc", "generic_wildcard", "rec", "recursive", "parent", "shape",
   "create_path_builder", "transform_attribute_name", "_RESERVED_ATTR_FOR_VERTEX_DATA"]

/-- … and nothing else is taken away from the keys `path.k` can spell: every real attribute
of the builder classes (table regenerated from the source) is a documented one or a Python
protocol name (`__x__`).  A new method or class attribute on the builder silently turns
`path.<that name>` from a key step into something else. -/
theorem only_documented_names_are_reserved : ∀ n ∈ Generated.reservedPlain, n ∈ documentedAttrs := by decide

/-- `path.k` ≡ `path['k']` for every name that is not a real attribute of the builder
(the table of real attributes is generated from the source on every run) -/
theorem attr_eq_item (st : VStore) (e : Expr) (k : String) (hd : e.dash = false)
    (hr : Generated.reservedAttrs.contains k = false) :
    getAttr st e k = getItem st e (.str k) := by
  have hm : ¬ k ∈ Generated.reservedAttrs := by simpa using hr
  simp [getAttr, getItem, hd, hm, transformName]

/-- under `pathd`, attribute names have `_` replaced by `-`; item keys are never rewritten -/
theorem dash_attr_eq_item (st : VStore) (e : Expr) (k : String) (hd : e.dash = true)
    (hr : Generated.reservedAttrsDash.contains k = false) :
    getAttr st e k = getItem st e (.str (k.map fun ch => if ch = '_' then '-' else ch)) := by
  have hm : ¬ k ∈ Generated.reservedAttrsDash := by simpa using hr
  simp [getAttr, getItem, hd, hm, transformName]

theorem item_never_rewritten (st : VStore) (e : Expr) (s : String) :
    getItem st e (.str s) = .ok (extend st e (.key s)) := rfl

theorem wc_eq_wildcard (st : VStore) (e : Expr) : getAttr st e "wc" = getAttr st e "wildcard" := by
  have h1 := reserved_names "wc" (by simp)
  have h2 := reserved_names "wildcard" (by simp)
  cases hd : e.dash <;> simp [getAttr, hd, h1.1, h1.2, h2.1, h2.2]

theorem gwc_eq_generic_wildcard (st : VStore) (e : Expr) : getAttr st e "gwc" = getAttr st e "generic_wildcard" := by
  have h1 := reserved_names "gwc" (by simp)
  have h2 := reserved_names "generic_wildcard" (by simp)
  cases hd : e.dash <;> simp [getAttr, hd, h1.1, h1.2, h2.1, h2.2]

theorem rec_eq_recursive (st : VStore) (e : Expr) : getAttr st e "rec" = getAttr st e "recursive" := by
  have h1 := reserved_names "rec" (by simp)
  have h2 := reserved_names "recursive" (by simp)
  cases hd : e.dash <;> simp [getAttr, hd, h1.1, h1.2, h2.1, h2.2]

/-- `.gwc` and `[gwc]` differ only in how they render (`.*` / `[*]`): they are the same
traverser step -/
theorem dot_gwc_same_step {α} (preds : String → Pred α) :
    kindToStep preds (.gwc true) = kindToStep preds (.gwc false) := rfl

/-- adjacent recursive steps are rejected at construction -/
theorem no_adjacent_rec (st : VStore) (e : Expr) (h : kindOfV st e.v = .recur) :
    getAttr st e "rec" = .error .pathSyntax := by
  have h1 := reserved_names "rec" (by simp)
  cases hd : e.dash <;> simp [getAttr, hd, h, h1.1, h1.2]

/-- attribute / item assignment on an expression is rejected -/
theorem assignment_rejected (st : VStore) (e : Expr) : setAttr st e = .attribute := rfl

/-- the concrete spelling claim of the property, on the generated tables -/
example : Generated.reservedAttrs.contains "k" = false ∧ Generated.reservedAttrsDash.contains "x_y_z" = false := by
  decide

end Treepath.C15
