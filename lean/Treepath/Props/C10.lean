import Treepath.Proofs.RefoldApi
import Treepath.Proofs.MutateLemmas
import Treepath.Proofs.NaturalNext
/- C10 — pop removes exactly the first match and returns it -/
namespace Treepath.C10

/-- `vertex.pop` writes exactly one object — the container the match's parent holds — and
nothing is allocated or removed from the store -/
theorem vertexPop_frame (h h' : Heap) (last : Option (Step Val)) (m : MNode Val)
    (hp : vertexPop h last m = .ok h') :
    h'.size = h.size ∧ ∃ id : Nat, (m.parent.map MNode.data = some (.ref id)) ∧ ∀ j : Nat, j ≠ id → h'[j]? = h[j]? := by
  unfold vertexPop at hp
  split at hp
  · rename_i k id hpar
    split at hp
    · split at hp
      · simp only [Except.ok.injEq] at hp; subst hp
        exact ⟨hput_size _ _ _, id, hpar, fun j hj => hput_other _ _ _ _ hj⟩
      · simp at hp
    · simp at hp
  · rename_i i id hpar
    split at hp
    · split at hp
      · simp only [Except.ok.injEq] at hp; subst hp
        exact ⟨hput_size _ _ _, id, hpar, fun j hj => hput_other _ _ _ _ hj⟩
      · simp at hp
    · simp at hp
  · simp at hp

/-- a dict entry is removed exactly as `del d[k]` does: the other entries keep their values
and order -/
theorem pop_key (h : Heap) (k : String) (m : MNode Val) (id : Nat) (es : List (String × Val)) (v : Val)
    (hpar : m.parent.map MNode.data = some (.ref id)) (ho : h[id]? = some (.dict es)) (hl : es.lookup k = some v) :
    vertexPop h (some (.key k)) m = .ok (hput h id (.dict (dictErase es k))) ∧
    ∀ k', k' ≠ k → (dictErase es k).lookup k' = es.lookup k' := by
  refine ⟨by simp [vertexPop, hpar, ho, dictDel, hl], fun k' hk => dictErase_lookup_other _ _ _ hk⟩

/-- a list item is removed exactly as `l.pop(i)` does: later items move down by one -/
theorem pop_index (h : Heap) (i : Int) (m : MNode Val) (id kk : Nat) (xs : List Val) (v : Val)
    (hpar : m.parent.map MNode.data = some (.ref id)) (ho : h[id]? = some (.list xs))
    (hn : normIndex xs.length i = some kk) (hv : xs[kk]? = some v) :
    vertexPop h (some (.idx i)) m = .ok (hput h id (.list (xs.eraseIdx kk))) := by
  simp [vertexPop, hpar, ho, listDel, hn, hv]

/-- a match whose last step is not a key or index (incl. the root) cannot be popped: PopError -/
theorem pop_unsupported (h : Heap) (last : Option (Step Val)) (m : MNode Val)
    (hl : match last with | some (.key _) | some (.idx _) => False | _ => True) :
    vertexPop h last m = .error .popError := by
  unfold vertexPop
  split <;> simp_all

/-- `pop_match`: nothing matched → `None` / MatchNotFoundError with the store unchanged;
matched but unsupported → PopError with the store unchanged; otherwise the first match is
returned and exactly one object is written -/
theorem popMatch_cases (stepsOf : Heap → List (Step Val)) (src : Src Val) (mm : Bool) (h h' : Heap)
    (r : Except ApiErr (Option (MNode Val))) (hr : popMatch stepsOf src mm h = (h', r)) :
    (∀ e, r = .error e → h' = h) ∧ (r = .ok none → h' = h) ∧
    (∀ m, r = .ok (some m) → getMatch (wcx h) (stepsOf h).toArray src mm = .ok (some m) ∧ h'.size = h.size ∧
        ∃ id : Nat, ∀ j : Nat, j ≠ id → h'[j]? = h[j]?) := by
  unfold popMatch at hr
  split at hr
  · simp only [Prod.mk.injEq] at hr; obtain ⟨h1, h2⟩ := hr; subst h1; subst h2
    exact ⟨fun e he => by simp at he, fun _ => rfl, fun m hm => by simp at hm⟩
  · rename_i m hg
    split at hr
    · rename_i hp
      simp only [Prod.mk.injEq] at hr; obtain ⟨h1, h2⟩ := hr; subst h1; subst h2
      obtain ⟨hsz, id, _, hfr⟩ := vertexPop_frame _ _ _ _ hp
      refine ⟨fun e he => by simp at he, fun hn => by simp at hn, fun m' hm' => ?_⟩
      simp only [Except.ok.injEq, Option.some.injEq] at hm'
      subst hm'
      exact ⟨hg, hsz, id, hfr⟩
    · simp only [Prod.mk.injEq] at hr; obtain ⟨h1, h2⟩ := hr; subst h1; subst h2
      exact ⟨fun _ _ => rfl, fun hn => by simp at hn, fun m hm => by simp at hm⟩
  · simp only [Prod.mk.injEq] at hr; obtain ⟨h1, h2⟩ := hr; subst h1; subst h2
    exact ⟨fun _ _ => rfl, fun hn => by simp at hn, fun m hm => by simp at hm⟩

/-- `pop` returns the value of the first match (falsy values like any other), or the default
when nothing matched -/
theorem pop_returns (stepsOf : Heap → List (Step Val)) (src : Src Val) (d : Option Val) (h : Heap) :
    (pop stepsOf src d h).2 =
      match (popMatch stepsOf src d.isNone h).2 with
      | .ok (some m) => .ok m.data
      | .ok none => .ok (d.getD (.atom .null))
      | .error e => .error e := by
  unfold pop
  rcases popMatch stepsOf src d.isNone h with ⟨h', r⟩
  cases r with
  | error e => rfl
  | ok o => cases o <;> rfl

/-- **"the first match of p"**, against the definition: the match `pop_match` removes is —
location for location, value unfolding to value — the first result of the step-by-step
definition of `p` on the JSON tree the document unfolds to; and when `pop_match` reports that
nothing matched, the definition selects nothing -/
theorem popped_match_is_the_definitions_first (stepsOf : Heap → List (Step Val)) (root : Val) (j : J)
    (h h' : Heap) (mm : Bool) (m : MNode Val) (hu : Unf h root j)
    (sb : Array (Step J)) (hsteps : LRel (StepRel (Unf h)) (stepsOf h) sb.toList) (hp : PredsClean sb)
    (hpop : popMatch stepsOf (.doc root) mm h = (h', .ok (some m))) :
    ∃ m', NodeRel (Unf h) m m' ∧ (evalE sb.toList (.root j)).1.head? = some m' := by
  simp only [popMatch] at hpop
  split at hpop
  · simp at hpop
  · rename_i m0 hg
    split at hpop
    · simp only [Prod.mk.injEq, Except.ok.injEq, Option.some.injEq] at hpop
      obtain ⟨_, rfl⟩ := hpop
      exact getMatch_heap_found h root j hu (stepsOf h).toArray sb (by simpa using hsteps) hp mm m0 hg
    · simp at hpop
  · simp at hpop

theorem vertexPop_not_notFound (h : Heap) (last : Option (Step Val)) (m : MNode Val)
    (hv : vertexPop h last m = .error .matchNotFound) : False := by
  simp only [vertexPop] at hv
  split at hv
  · split at hv
    · split at hv <;> simp at hv
    · simp at hv
  · split at hv
    · split at hv <;> simp at hv
    · simp at hv
  · simp at hv

theorem nothing_to_pop_means_nothing_selected (stepsOf : Heap → List (Step Val)) (root : Val) (j : J)
    (h : Heap) (hu : Unf h root j)
    (sb : Array (Step J)) (hsteps : LRel (StepRel (Unf h)) (stepsOf h) sb.toList) (hp : PredsClean sb)
    (hpop : popMatch stepsOf (.doc root) true h = (h, .error .matchNotFound)) :
    evalE sb.toList (.root j) = ([], none) := by
  simp only [popMatch] at hpop
  split at hpop
  · simp at hpop
  · split at hpop
    · simp at hpop
    · rename_i e hv
      simp only [Prod.mk.injEq, Except.error.injEq] at hpop
      obtain ⟨_, rfl⟩ := hpop
      exact (vertexPop_not_notFound _ _ _ hv).elim
  · rename_i e hg
    simp only [Prod.mk.injEq, Except.error.injEq] at hpop
    obtain ⟨_, rfl⟩ := hpop
    exact getMatch_heap_notfound h root j hu (stepsOf h).toArray sb (by simpa using hsteps) hp true (.inr hg)

/-! ### `pop` as an update of the JSON tree -/

/-- **exactly one entry, said on the tree**: on a document that is a tree (`DocInv`), a
successful `pop_match` makes the document unfold to `J.popAt j p.loc nm` — `j` without the
entry named by the last step inside the node at the location of the match's parent, every
other part of `j` as it was, nothing new — and the document is again such a tree -/
theorem pop_is_one_tree_update (stepsOf : Heap → List (Step Val)) (root : Val) (j : J) (h h' : Heap) (mm : Bool)
    (m : MNode Val) (hi : DocInv h root j)
    (hpop : popMatch stepsOf (.doc root) mm h = (h', .ok (some m))) :
    ∃ p nm j', m.parent = some p ∧ (stepsOf h).getLast? = some (nameStepV nm) ∧ J.popAt j p.loc nm = some j' ∧
      DocInv h' root j' ∧ ∀ x ∈ fpJ h' j' root, x ∈ fpJ h j root :=
  popMatch_refines stepsOf root j h h' mm m hi hpop

/-- every other outcome of `pop_match` (nothing matched, an error) leaves the store as it is -/
theorem pop_otherwise_nothing (stepsOf : Heap → List (Step Val)) (src : Src Val) (h h' : Heap) (mm : Bool)
    (r : Except ApiErr (Option (MNode Val))) (hpop : popMatch stepsOf src mm h = (h', r))
    (hr : ∀ m, r ≠ .ok (some m)) : h' = h :=
  popMatch_other stepsOf src h h' mm r hpop hr

/-- the tree-level removal, computed: `pop(path.a[-1], {"a": [1, 2], "b": null})` -/
example : J.popAt (.obj [("a", .arr [.int 1, .int 2]), ("b", .null)]) [.key "a"] (.idx (-1))
    = some (.obj [("a", .arr [.int 1]), ("b", .null)]) := by
  simp [J.popAt, J.updateAt, childAt, J.view, List.lookup, J.delName, normIndex, J.putChild, kvsSet]

end Treepath.C10
