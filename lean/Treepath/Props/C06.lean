import Treepath.Proofs.MutateLemmas
import Treepath.Proofs.BuilderLemmas
import Treepath.Generated.Stores
/- C06 — queries never modify the document or the path.
In a functional model purity of the readers is largely by construction (said so in
DESIGN.md): the read API has no store among its results.  What carries the weight is the
correspondence run, the generated store table below, and the python-side snapshot oracle. -/
namespace Treepath.C06

/-- the read API over the object store returns matches / values / errors and no store:
`getMatch`, `get`, `drain` (find / find_matches) are functions of the store that cannot
change it.  Stated for the one reader that *can* write (`get` with `store_default`): when the
path is found nothing is stored. -/
theorem get_found_stores_nothing (stepsOf : Heap → List (Step Val)) (src : Src Val) (h : Heap) (v : Val) (m : MNode Val)
    (hfound : getMatch (wcx h) (stepsOf h).toArray src false = .ok (some m)) :
    (getStoreDefault stepsOf src v h).1 = h := by
  simp [getStoreDefault, hfound]

/-- a `pop` / `pop_match` that finds nothing (or fails) leaves the store as it is -/
theorem failed_pop_pure (stepsOf : Heap → List (Step Val)) (src : Src Val) (mm : Bool) (h h' : Heap)
    (r : Except ApiErr (Option (MNode Val))) (hr : popMatch stepsOf src mm h = (h', r))
    (hne : ∀ m, r ≠ .ok (some m)) : h' = h := by
  unfold popMatch at hr
  split at hr
  · simp only [Prod.mk.injEq] at hr; exact hr.1.symm
  · split at hr
    · simp only [Prod.mk.injEq] at hr
      exact absurd hr.2.symm (hne _)
    · simp only [Prod.mk.injEq] at hr; exact hr.1.symm
  · simp only [Prod.mk.injEq] at hr; exact hr.1.symm

/-- the one reader that can write, when the search itself fails (a predicate raises, the
budget runs out): the error is passed on and nothing is stored -/
theorem get_store_default_error_stores_nothing (stepsOf : Heap → List (Step Val)) (src : Src Val) (h : Heap) (v : Val)
    (e : ApiErr) (herr : getMatch (wcx h) (stepsOf h).toArray src false = .error e) :
    getStoreDefault stepsOf src v h = (h, .error e) := by
  simp [getStoreDefault, herr]

/-- `pop(expr, data, default)` that finds nothing answers with the default and leaves the
store as it is: only a pop that returns a match has written -/
theorem pop_default_pure (stepsOf : Heap → List (Step Val)) (src : Src Val) (d : Val) (h h' : Heap)
    (r : Except ApiErr Val) (hr : pop stepsOf src (some d) h = (h', r))
    (hmiss : ∀ m, (popMatch stepsOf src false h).2 ≠ .ok (some m)) : h' = h := by
  unfold pop at hr
  rcases hp : popMatch stepsOf src false h with ⟨h1, r1⟩
  have hpure : h1 = h := failed_pop_pure stepsOf src false h h1 r1 hp (by simpa [hp] using hmiss)
  simp only [Option.isNone_some, hp] at hr
  cases r1 with
  | error e => simp only [Prod.mk.injEq] at hr; rw [← hr.1, hpure]
  | ok o =>
    cases o with
    | none => simp only [Prod.mk.injEq] at hr; rw [← hr.1, hpure]
    | some m => simp only [Prod.mk.injEq] at hr; rw [← hr.1, hpure]

/-- evaluating or rendering a path fills caches only: every vertex keeps its parent and kind,
so the expression renders the same and selects the same afterwards -/
theorem path_unchanged_by_use (st : VStore) (hw : WF st) (v : Nat) (hv : v < st.size) :
    SameShape st (render st v).1 ∧ SameShape st (pathAsList st v).1 ∧
    (render (render st v).1 v).2 = (render st v).2 := by
  obtain ⟨h1, h2, h3⟩ := render_spec st hw v hv
  obtain ⟨_, _, h6⟩ := pathAsList_spec st hw v hv
  have hv' : v < (render st v).1.size := by
    have := h3 v
    cases hx : (render st v).1[v]? with
    | none =>
      have hy : st[v]? ≠ none := by
        intro hn; have := Array.getElem?_eq_none_iff.mp hn; omega
      rw [hx] at this
      cases hz : st[v]? <;> simp_all
    | some n => exact (Array.getElem?_eq_some_iff.mp hx).1
  obtain ⟨h7, _, _⟩ := render_spec (render st v).1 h2 v hv'
  exact ⟨h3, h6, by rw [h7, h1, renderPure_sameShape h3]⟩

/-- **generated from the source on every run**: the complete list of places in the package
that store into, delete from, or call a mutating method on a document container.  Exactly
the writers appear — vertex `set` / `pop`, the `Match.data` setter / deleter and the list
view — and no traverser, vertex `match`, has-function or read API function. -/
theorem only_writers_store :
    Generated.storeRoles.all (fun r => r.2 == "writer" || r.2 == "helper") = true ∧
    Generated.storeRoles.length = Generated.documentStores.length ∧ Generated.documentStores ≠ [] := by
  decide

end Treepath.C06
