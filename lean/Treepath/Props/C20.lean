import Treepath.Proofs.NaturalNext
import Treepath.Proofs.Drive
import Treepath.Proofs.Work
import Treepath.Spec.Eval
import Treepath.Generated.Budget
import Treepath.Proofs.MachineLemmas
import Treepath.Proofs.Budget
import Treepath.Proofs.NoRescan
import Treepath.Proofs.DriveX
/- C20 — traversal halts, doing work proportional to the search space -/
namespace Treepath.C20

/-- the number of match attempts of a search has a closed recursive form: a failing
single-valued step costs one attempt … -/
theorem attempts_single_fail (s : Step J) (rest : List (Step J)) (vi : Nat) (n : MNode J)
    (hc : s.cls = .single) (h : singleOf J.view s n = none) :
    attempts (stream (s :: rest) vi n) = 1 := by
  simp [stream, hc, h, attempts]

/-- … a successful one costs one attempt plus the work of the rest of the path … -/
theorem attempts_single_ok (s : Step J) (rest : List (Step J)) (vi : Nat) (n n' : MNode J)
    (hc : s.cls = .single) (h : singleOf J.view s n = some n') :
    attempts (stream (s :: rest) vi n) = 1 + attempts (stream rest (vi+1) n') := by
  simp [stream, hc, h, attempts, List.countP_cons]
  omega

theorem attempts_append {α} (a b : List (Ev α)) : attempts (a ++ b) = attempts a + attempts b := by
  simp [attempts, List.countP_append]

theorem attempts_items (rest : List (Step J)) (vi : Nat) (n : MNode J) (its : List (Name × J)) :
    attempts (its.flatMap fun (nm, x) =>
        Ev.attempt n (vi+1) (some (MNode.child n nm x)) none :: stream rest (vi+1) (MNode.child n nm x)) =
      its.length + (its.map fun (nm, x) => attempts (stream rest (vi+1) (.child n nm x))).sum := by
  induction its with
  | nil => simp [attempts]
  | cons it tl ih =>
    obtain ⟨nm, x⟩ := it
    simp only [List.flatMap_cons, attempts_append, List.map_cons, List.sum_cons, List.length_cons, ih]
    have h1 : attempts (Ev.attempt n (vi + 1) (some (MNode.child n nm x)) none :: stream rest (vi + 1) (MNode.child n nm x))
        = 1 + attempts (stream rest (vi + 1) (MNode.child n nm x)) := by
      simp [attempts, List.countP_cons]; omega
    rw [h1]
    omega

/-- … and a multi-valued step costs one attempt per produced item, one for exhaustion, plus
the work of the rest of the path at every item: nothing is re-scanned. -/
theorem attempts_multi (s : Step J) (rest : List (Step J)) (vi : Nat) (n : MNode J)
    (its : List (Name × J)) (hc : s.cls = .multi) (h : itemsOf s n.data.view = .ok its) :
    attempts (stream (s :: rest) vi n) =
      its.length + 1 + (its.map fun (nm, x) => attempts (stream rest (vi+1) (.child n nm x))).sum := by
  simp only [stream, hc, h, attempts_append, attempts_items]
  have : attempts ([Ev.attempt n (vi + 1) none none] : List (Ev J)) = 1 := by simp [attempts]
  rw [this]
  omega

/-- a step of the wrong kind costs exactly one attempt -/
theorem attempts_wrong_kind (s : Step J) (rest : List (Step J)) (vi : Nat) (n : MNode J)
    (hc : s.cls = .multi) (h : itemsOf s n.data.view = .wrongKind) :
    attempts (stream (s :: rest) vi n) = 1 := by
  simp [stream, hc, h, attempts]

/-- **every query on a finite JSON tree terminates**: after finitely many actions the machine
is exhausted, having emitted exactly the specification's stream — so the number of match
attempts it performs *is* `attempts (stream …)`, whose closed form above counts one attempt
per produced item plus one per exhaustion / failure: no re-scan, no restart, no spin -/
theorem terminates_with_spec_work (steps : Array (Step J)) (src : Src J) (hq : Quiet steps.toList) :
    ∃ k stD, hrun J.view steps src (1 + k) freshIter = (stD, stream steps.toList 0 src.rootNode) ∧ stD.act = .done ∧
      attempts (hrun J.view steps src (1 + k) freshIter).2 = attempts (stream steps.toList 0 src.rootNode) := by
  obtain ⟨k, stD, h1, h2⟩ := full_run steps src hq
  exact ⟨k, stD, h1, h2, by rw [h1]⟩

/-- once exhausted the machine spends one action per further `next()` and emits nothing but
`stop` -/
theorem exhausted_is_idle {α} (view : α → View α) (steps : Array (Step α)) (src : Src α) (k : Nat) (st : St α)
    (h : st.act = .done) : hrun view steps src k st = (st, List.replicate k .stop) :=
  hrun_done view steps src k st h

/-- **work bound**: on every finite JSON tree, the number of match attempts of the search (the
trace events of the search itself; a predicate's nested search is bounded by its own
instance of this theorem) is at most **twice** the number of node/step examinations the
path's definition requires -/
theorem attempts_at_most_twice_examinations (p : List (Step J)) (hp : PredsStamped p) (vi : Nat) (n : MNode J) :
    attemptsTop (stream p vi n) ≤ 2 * exams p n :=
  work_bound p hp vi n

/-- … and that is the work the traverser really does: its complete run emits that stream -/
theorem machine_work_bound (steps : Array (Step J)) (src : Src J) (hq : Quiet steps.toList)
    (hp : PredsStamped steps.toList) :
    ∃ k stD, (hrun J.view steps src (1 + k) freshIter).1 = stD ∧ stD.act = .done ∧
      attemptsTop (hrun J.view steps src (1 + k) freshIter).2 ≤ 2 * exams steps.toList src.rootNode := by
  obtain ⟨k, stD, h1, h2⟩ := full_run steps src hq
  refine ⟨k, stD, by rw [h1], h2, ?_⟩
  rw [h1]
  exact work_bound _ hp 0 _

/-- **never re-scans, restarts**: on a document whose dicts have unique keys, no match attempt of
the search — identified by the step's index, the location of the node it is applied to and
the location it arrives at (or its failure) — is made twice, for every path of keys, indices,
slices, wildcards and filters with at most one recursive step (no parent step and no comma
list: those may legitimately visit a node by several routes / ask for an entry twice) -/
theorem no_attempt_is_made_twice (p : List (Step J)) (d : J) (hd : d.WFK) (hp : okShape p = true)
    (hs : PredsStamped p) : (topKeys (stream p 0 (.root d))).Nodup :=
  (stream_keys p hp hs 0 (.root d) hd).1

/-- the premises are met by ordinary paths and documents, and the limits of the statement are
real: with two recursive steps the same attempt *is* made twice (`$.a.b` is reached below `$.a` and as a member of `$.a`) -/
example : okShape [Step.key "a", .recur, .idxWc] = true := by decide
example : (topKeys (stream [.recur, .keyWc] 0 (.root (.obj [("a", .obj [("b", .int 1)])])))).length = 10 := by decide
example : ¬ (topKeys (stream [.recur, .keyWc, .recur] 0 (.root (.obj [("a", .obj [("b", .obj [("c", .int 1)])])])))).Nodup := by decide

/-- keys of a prefix of a stream are a sublist of the stream's keys -/
theorem topKeys_ttr_sublist (evs : List (Ev J)) : (topKeys (takeThroughRaise evs)).Sublist (topKeys evs) := by
  induction evs with
  | nil => simp [takeThroughRaise]
  | cons e t ih =>
    cases e with
    | raised x => simp [takeThroughRaise, topKeys_raised]
    | attempt l vi nx st =>
      cases st with
      | none => simp only [takeThroughRaise, topKeys_attempt]; exact ih.cons_cons _
      | some c => simpa [takeThroughRaise, topKeys, List.filterMap_cons, topKey] using ih
    | predCall c => simpa [takeThroughRaise] using ih
    | result c => simpa [takeThroughRaise] using ih
    | fnCall nm a => simpa [takeThroughRaise, topKeys, List.filterMap_cons, topKey] using ih
    | stop => simpa [takeThroughRaise, topKeys, List.filterMap_cons, topKey] using ih

/-- … and that is what the traverser does: the trace of its complete run (to exhaustion, or
through the first exception a predicate raises) holds no attempt twice -/
theorem machine_never_rescans (steps : Array (Step J)) (d : J) (hd : d.WFK) (hc : PredsClean steps)
    (hp : okShape steps.toList = true) (hs : PredsStamped steps.toList) :
    ∃ k, (topKeys (hrun J.view steps (.doc d) k freshIter).2).Nodup ∧
      ((hrun J.view steps (.doc d) k freshIter).1.act = .done ∨
       ∃ e evs', action J.view steps (.doc d) (hrun J.view steps (.doc d) k freshIter).1 =
          ((hrun J.view steps (.doc d) k freshIter).1, evs', .raised e)) := by
  have hnd := no_attempt_is_made_twice steps.toList d hd hp hs
  rcases full_run_x steps (.doc d) hc with ⟨_, k, stD, h1, h2⟩ | ⟨e, _, k, stU, evs', h1, h2, _⟩
  · exact ⟨k, by rw [h1]; exact hnd, .inl (by rw [h1]; exact h2)⟩
  · refine ⟨k, ?_, .inr ⟨e, evs', by rw [h1]; exact h2⟩⟩
    rw [h1]
    exact (topKeys_ttr_sublist _).nodup hnd

/-- the same for a search started from a Match (`find_matches(q, m)`): no attempt twice either -/
theorem machine_never_rescans_from_a_match (steps : Array (Step J)) (m : MNode J) (hd : m.data.WFK) (hc : PredsClean steps)
    (hp : okShape steps.toList = true) (hs : PredsStamped steps.toList) :
    ∃ k, (topKeys (hrun J.view steps (.nested m) k freshIter).2).Nodup := by
  have hnd := (stream_keys steps.toList hp hs 0 (.imag m) hd).1
  rcases full_run_x steps (.nested m) hc with ⟨_, k, stD, h1, _⟩ | ⟨e, _, k, stU, evs', h1, _, _⟩
  · exact ⟨k, by rw [h1]; exact hnd⟩
  · exact ⟨k, by rw [h1]; exact (topKeys_ttr_sublist _).nodup hnd⟩

/-- every `__next__` performs at most `loopBudget` actions: `next` is defined by structural
recursion on the budget (Lean accepts the definition only because it terminates), and when
the budget is used up it signals `InfiniteLoopDetected` -/
theorem budget_exhausted_signals {α} (view : α → View α) (steps : Array (Step α)) (src : Src α) (st : St α) :
    (next view steps src 0 st).2.2 = .raised .loopDetected := rfl

theorem budget_value : Generated.loopBudget = 1000000 := by decide

/-- **pacing**: a `next()` that ends in `InfiniteLoopDetected` has performed `limit` actions
of which at least `(limit - 3) / 3` were match attempts — the counter only runs out while the
search keeps attempting matches (generic in the document type: trees, object stores, cyclic
graphs) -/
theorem loop_detected_means_work {α} (view : α → View α) (steps : Array (Step α)) (src : Src α)
    (hq : ∀ st s1 e1 e, action view steps src st ≠ (s1, e1, .raised e))
    (limit : Nat) (st : St α) (as : AS α) (hR : R steps st as) (st' : St α) (evs : List (Ev α))
    (h : next view steps src limit st = (st', evs, .raised .loopDetected)) :
    ∃ E, evs = E ++ [.raised .loopDetected] ∧ limit ≤ 3 + 3 * attemptsTop E := by
  obtain ⟨E, h1, _, h3⟩ := next_loop_pace view steps src hq limit st as hR st' evs h
  have := as.pot_le
  exact ⟨E, h1, by omega⟩

/-- **on a finite tree the budget is never the reason a search fails**: with the real budget
(generated from the source), if `6 · exams + 3` is below it, no `next()` call of the whole
iteration raises `InfiniteLoopDetected` -/
theorem budget_not_hit_on_trees (steps : Array (Step J)) (src : Src J) (hq : Quiet steps.toList)
    (hp : PredsClean steps) (hs : PredsStamped steps.toList)
    (hb : 6 * exams steps.toList src.rootNode + 3 < Generated.loopBudget)
    (st' st'' : St J) (rs : List (MNode J)) (E evs : List (Ev J))
    (hy : Yields J.view steps src Generated.loopBudget freshIter rs E st') :
    next J.view steps src Generated.loopBudget st' ≠ (st'', evs, .raised .loopDetected) := by
  have hwork := work_bound steps.toList hs 0 src.rootNode
  exact no_loop_under_budget steps src hq hp _ (by omega) st' st'' rs E evs hy

/-- … so the whole iteration, as `list(find_matches(...))` sees it, is the definition's
answer: terminates, no error, nothing missing, nothing twice -/
theorem drain_is_definition (steps : Array (Step J)) (src : Src J) (hq : Quiet steps.toList)
    (hp : PredsClean steps) (hs : PredsStamped steps.toList)
    (hb : 6 * exams steps.toList src.rootNode + 3 < Generated.loopBudget) (fuel : Nat)
    (hf : (eval steps.toList src.rootNode).length < fuel) :
    drain ({ view := J.view, toJ := id } : Ctx J) steps src fuel freshIter = (eval steps.toList src.rootNode, none) :=
  drain_is_eval steps src { view := J.view, toJ := id } rfl hq hp hs hb fuel freshIter [] [] _ (.nil _) (by simp) hf

/-- non-vacuity of the budget premise: a three-element document under `$[*]` -/
example : 6 * exams [Step.idxWc] (.root (.arr [.int 1, .int 2, .int 3])) + 3 < Generated.loopBudget := by decide


/-! ### every call ends, on any structure -/

section anystructure
variable {α : Type} (view : α → View α) (steps : Array (Step α)) (src : Src α)

/-- the states an iterator can be in: those the bisimulation relates to a well-formed state of
the stack machine -/
def Reachable (st : St α) : Prop := ∃ as, R steps st as ∧ Good steps as

theorem fresh_is_reachable : Reachable steps (freshIter : St α) := ⟨.init, .init _ rfl, trivial⟩

theorem anext_good (limit : Nat) (as : AS α) (hg : Good steps as) : Good steps (anext view steps src limit as).1 := by
  induction limit generalizing as with
  | zero => exact hg
  | succ limit ih =>
    have h1 := (astep_good view steps src as hg).1
    unfold anext
    rcases hb : astep view steps src as with ⟨t, ev, sg⟩
    rw [hb] at h1
    cases sg with
    | none => simp only; split; exact h1; exact ih t h1
    | result n => simp only; split <;> exact h1
    | stop => exact h1
    | raised e => exact h1
    | bug m => exact h1

/-- a reachable state stays reachable across `next()` — whatever the call's outcome -/
theorem next_keeps_reachable (limit : Nat) (st : St α) (h : Reachable steps st) :
    Reachable steps (next view steps src limit st).1 := by
  obtain ⟨as, hR, hg⟩ := h
  exact ⟨_, (next_anext view steps src limit st as hR).2, anext_good view steps src limit as hg⟩

/-- **a `next()` call never hangs and never falls off the state machine, on any structure** —
finite tree, object store or cyclic graph: from every reachable state it ends, after at most
`limit` actions (it is defined by structural recursion on the budget), in a result,
`StopIteration`, or an exception — the predicate's `TraversingError`, or `InfiniteLoopDetected`
when the budget ran out; and (`loop_detected_means_work`) the budget only runs out while match
attempts are being made -/
theorem every_next_ends_in_an_outcome (limit : Nat) (st : St α) (h : Reachable steps st) :
    (∃ n, (next view steps src limit st).2.2 = .result n) ∨ (next view steps src limit st).2.2 = .stop ∨
    (∃ e, (next view steps src limit st).2.2 = .raised e) := by
  obtain ⟨as, hR, hg⟩ := h
  rcases hn : next view steps src limit st with ⟨st', evs, sig⟩
  cases sig with
  | result n => exact .inl ⟨n, rfl⟩
  | stop => exact .inr (.inl rfl)
  | raised e => exact .inr (.inr ⟨e, rfl⟩)
  | none => exact absurd hn (next_not_none view steps src limit st st' evs)
  | bug m => exact absurd hn (next_no_bug view steps src limit st as hR hg st' evs m)

/-- … hence so does every call of a whole history of `next()` calls on one iterator -/
theorem every_call_of_a_history_ends (limit : Nat) : ∀ (k : Nat) (st : St α), Reachable steps st →
    Reachable steps (Nat.rec st (fun _ s => (next view steps src limit s).1) k) := by
  intro k
  induction k with
  | zero => intro st h; exact h
  | succ k ih => intro st h; exact next_keeps_reachable view steps src limit _ (ih st h)

end anystructure

end Treepath.C20
