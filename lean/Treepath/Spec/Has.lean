import Treepath.Spec.Eval
import Treepath.Model.Has
/-
Specification of the has-family in terms of the L3 evaluator: existential tests over the
selected values in selection order, first success wins, functions applied right-to-left,
left-to-right short-circuit and / or / not.
-/
namespace Treepath

/-- try the selected values in order: first truthy test value wins; a raising test or a
raise met while selecting stops the search -/
def firstSuccess (test : J → List (Ev J) × Except Exc J) : List (MNode J) → Option Exc → List (Ev J) × PRes
  | [], none => ([], .val (.bool false))
  | [], some e => ([], .raise e)
  | n :: ns, e =>
    match test n.data with
    | (evs, .ok v) =>
      if v.truthy then (evs, .val (.bool true))
      else
        let r := firstSuccess test ns e
        (evs ++ r.1, r.2)
    | (evs, .error x) => (evs, .raise x)

/-- `has(path [<op> v] [, f1, …, fn])` at candidate `c`: some value selected by `path`
relative to `c` makes `op (f1 (… (fn x)))` truthy. -/
def hasS (steps : List (Step J)) (op : Option Fn) (fns : List Fn) : Pred J := fun c =>
  let r := evalE steps (.imag c)
  let o := firstSuccess (hasTest op fns) r.1 r.2
  { evs := o.1, res := o.2 }

end Treepath
