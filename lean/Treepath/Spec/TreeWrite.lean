import Treepath.Model.Heap
/-
The writers as functions on JSON *trees*: what `set_`, `pop` and the `Match` handles do to a
document, said without an object store — the abstract specification the store model of
`Model/Mutate.lean` is shown to refine (`Proofs/Refold.lean`) on stores without aliasing.
-/
namespace Treepath

/-- `d[k] = v` on a JSON object: replace in place (position kept) or add at the end -/
def kvsSet : List (String × J) → String → J → List (String × J)
  | [], k, v => [(k, v)]
  | (k', v') :: es, k, v => if k' = k then (k, v) :: es else (k', v') :: kvsSet es k v

/-- the object without key `k` -/
def kvsErase : List (String × J) → String → List (String × J)
  | [], _ => []
  | (k', v') :: es, k => if k' = k then es else (k', v') :: kvsErase es k

/-- replace the existing child `nm` of a container -/
def J.putChild : J → Name → J → Option J
  | .obj es, .key k, c => if (es.lookup k).isSome then some (.obj (kvsSet es k c)) else none
  | .arr xs, .idx i, c => (normIndex xs.length i).map fun p => .arr (xs.set p c)
  | _, _, _ => none

/-- `container[name] = v` as `vertex.set` does it: a new key is added, an index equal to the
length appends, any other missing index and any kind mismatch fails (SetError) -/
def J.setName : J → Name → J → Option J
  | .obj es, .key k, v => some (.obj (kvsSet es k v))
  | .arr xs, .idx i, v =>
    match normIndex xs.length i with
    | some p => some (.arr (xs.set p v))
    | none => if i = xs.length then some (.arr (xs ++ [v])) else none
  | _, _, _ => none

/-- `del container[name]`: the container without that entry -/
def J.delName : J → Name → Option J
  | .obj es, .key k => if (es.lookup k).isSome then some (.obj (kvsErase es k)) else none
  | .arr xs, .idx i => (normIndex xs.length i).map fun p => .arr (xs.eraseIdx p)
  | _, _ => none

/-- apply `f` to the sub-tree at a location (names read as Python reads them), leaving every
other part of the document as it is; `none` if the location does not exist or `f` fails -/
def J.updateAt (f : J → Option J) : J → List Name → Option J
  | j, [] => f j
  | j, nm :: l =>
    match childAt (J.view j) nm with
    | none => none
    | some c =>
      match J.updateAt f c l with
      | none => none
      | some c' => j.putChild nm c'

/-- `set_` on a tree: at the location of the parent container, assign `v` under the last name -/
def J.setAt (j : J) (parentLoc : List Name) (nm : Name) (v : J) : Option J :=
  J.updateAt (fun c => c.setName nm v) j parentLoc

/-- the container `vertex.default_value_for_set` creates in front of a step: `dict()` before a
key, `list()` before an index -/
def emptyFor : Name → J
  | .key _ => .obj []
  | .idx _ => .arr []

/-- cascading assignment along a path of keys / indices: levels that exist are reused, each
missing level gets an empty container of the kind the *next* name needs, finally `v` is
assigned (`none`: a level of the wrong kind, an index that can neither be assigned nor
appended — SetError) -/
def J.cascadeAt : J → List Name → J → Option J
  | _, [], _ => none
  | j, [nm], v => j.setName nm v
  | j, nm :: nm2 :: rest, v =>
    match childAt (J.view j) nm with
    | none =>
      match J.cascadeAt (emptyFor nm2) (nm2 :: rest) v with
      | none => none
      | some c' => j.setName nm c'
    | some c =>
      match J.cascadeAt c (nm2 :: rest) v with
      | none => none
      | some c' => j.putChild nm c'

/-- `pop` on a tree -/
def J.popAt (j : J) (parentLoc : List Name) (nm : Name) : Option J :=
  J.updateAt (fun c => c.delName nm) j parentLoc

/-! ### footprints: the objects a value unfolds through, with multiplicity -/
mutual
def fpJ (h : Heap) : J → Val → List Nat
  | .obj kvs, .ref id => id :: (match h[id]? with | some (.dict es) => fpKvs h kvs es | _ => [])
  | .arr ys, .ref id => id :: (match h[id]? with | some (.list xs) => fpList h ys xs | _ => [])
  | .obj _, .atom _ => []
  | .arr _, .atom _ => []
  | .null, _ => []
  | .bool _, _ => []
  | .int _, _ => []
  | .half _, _ => []
  | .str _, _ => []
def fpKvs (h : Heap) : List (String × J) → List (String × Val) → List Nat
  | (_, j) :: kvs, (_, v) :: es => fpJ h j v ++ fpKvs h kvs es
  | [], _ => []
  | _ :: _, [] => []
def fpList (h : Heap) : List J → List Val → List Nat
  | j :: ys, v :: xs => fpJ h j v ++ fpList h ys xs
  | [], _ => []
  | _ :: _, [] => []
end

end Treepath
