import Treepath.Model.Path
/-
L3: the "step-by-step definition" the properties quote — a list-monad evaluator over JSON
trees — and L2: the compositional big-step event stream of a whole search.
Both are defined by structural recursion (on the step list, and on the tree for `recur`);
neither mentions the traverser's heap, resume pointers or iterators.
-/
namespace Treepath

def J.isContainer : J → Bool
  | .arr _ | .obj _ => true
  | _ => false

/-! ### document pre-order -/
mutual
/-- `n` (whose data is the second argument) followed by all its descendants, pre-order. -/
def preNodes : MNode J → J → List (MNode J)
  | n, .obj kvs => n :: preKvs n kvs
  | n, .arr xs => n :: preXs n 0 xs
  | n, _ => [n]
def preKvs : MNode J → List (String × J) → List (MNode J)
  | _, [] => []
  | n, (k, v) :: rest => preNodes (.child n (.key k) v) v ++ preKvs n rest
def preXs : MNode J → Nat → List J → List (MNode J)
  | _, _, [] => []
  | n, i, x :: rest => preNodes (.child n (.idx i) x) x ++ preXs n (i+1) rest
end

/-- candidates of a recursive step at context `n`: nothing for a scalar context, otherwise
the context followed by all its descendants in document pre-order. -/
def recNodes (n : MNode J) : List (MNode J) :=
  if n.data.isContainer then preNodes n n.data else []

/-! ### L3: results, sequentially, up to the first exception -/

/-- results produced before the first exception, and that exception -/
abbrev Res := List (MNode J) × Option Exc

/-- apply `k` to each node in order, concatenating, stopping at the first exception -/
def seqFlat (k : MNode J → Res) : List (MNode J) → Res
  | [] => ([], none)
  | n :: ns =>
    match k n with
    | (out, some e) => (out, some e)
    | (out, none) =>
      let r := seqFlat k ns
      (out ++ r.1, r.2)

/-- one non-recursive step -/
def evalStep (s : Step J) (n : MNode J) : Res :=
  match s.cls with
  | .single => ((singleOf J.view s n).toList, none)
  | .multi =>
    match itemsOf s n.data.view with
    | .ok its => (its.map fun (nm, x) => MNode.child n nm x, none)
    | .wrongKind => ([], none)
    | .valueError => ([], some (.user "ValueError"))
  | .filter =>
    match s with
    | .filter f =>
      match (f n).res with
      | .val j => (if j.truthy then [MNode.imag n] else [], none)
      | .raise e => ([], some (.traversing e))
    | _ => ([], none)
  | .recur => ([], none)

/-- the step-by-step definition of a path, from node `n` -/
def evalE : List (Step J) → MNode J → Res
  | [], n => ([n], none)
  | .recur :: rest, n =>
    seqFlat (fun m =>
      if m.data.isContainer then evalE rest (.imag m)
      else if rest.isEmpty then ([m], none) else ([], none)) (recNodes n)
  | s :: rest, n =>
    match evalStep s n with
    | (ns, none) => seqFlat (evalE rest) ns
    | (ns, some e) =>
      match seqFlat (evalE rest) ns with
      | (out, some e') => (out, some e')
      | (out, none) => (out, some e)

def eval (steps : List (Step J)) (n : MNode J) : List (MNode J) := (evalE steps n).1

/-! ### L2: the event stream of a whole search -/

mutual
/-- events of a recursive step for one child `(nm, x)` of container `n`.
`k` = stream of the rest of the path, `last` = the recursive step is the last step. -/
def recChild (k : MNode J → List (Ev J)) (last : Bool) (vi : Nat) (n : MNode J) (nm : Name) : J → List (Ev J)
  | .obj kvs => .attempt n (vi+1) (some (.imag (.child n nm (.obj kvs)))) none
                  :: (k (.imag (.child n nm (.obj kvs))) ++ recKvs k last vi (.child n nm (.obj kvs)) kvs
                      ++ [.attempt (.child n nm (.obj kvs)) (vi+1) none none])
  | .arr xs => .attempt n (vi+1) (some (.imag (.child n nm (.arr xs)))) none
                  :: (k (.imag (.child n nm (.arr xs))) ++ recXs k last vi (.child n nm (.arr xs)) 0 xs
                      ++ [.attempt (.child n nm (.arr xs)) (vi+1) none none])
  | x => .attempt n (vi+1) (some (.child n nm x)) none
           :: (if last then [.result (.child n nm x)] else [.attempt (.child n nm x) (vi+1) none none])
def recKvs (k : MNode J → List (Ev J)) (last : Bool) (vi : Nat) (n : MNode J) : List (String × J) → List (Ev J)
  | [] => []
  | (key, v) :: rest => recChild k last vi n (.key key) v ++ recKvs k last vi n rest
def recXs (k : MNode J → List (Ev J)) (last : Bool) (vi : Nat) (n : MNode J) : Nat → List J → List (Ev J)
  | _, [] => []
  | i, x :: rest => recChild k last vi n (.idx i) x ++ recXs k last vi n (i+1) rest
end

/-- events of a recursive step below a container `m` (data = second arg) after the attempt
that produced `imag m`: the rest of the path at `m`, then every child, then exhaustion. -/
def recBody (k : MNode J → List (Ev J)) (last : Bool) (vi : Nat) (m : MNode J) : J → List (Ev J)
  | .obj kvs => k (.imag m) ++ recKvs k last vi m kvs ++ [.attempt m (vi+1) none none]
  | .arr xs => k (.imag m) ++ recXs k last vi m 0 xs ++ [.attempt m (vi+1) none none]
  | _ => []

/-- complete event stream of the search for `steps` from `n`, where `vi` steps of the path
have already been consumed.  An exception does *not* cut the stream here (the machine's
stream is the prefix through the first `raised`), which keeps it compositional. -/
def stream : List (Step J) → Nat → MNode J → List (Ev J)
  | [], _, n => [.result n]
  | s :: rest, vi, n =>
    match s.cls with
    | .single =>
      match singleOf J.view s n with
      | none => [.attempt n (vi+1) none none]
      | some n' => .attempt n (vi+1) (some n') none :: stream rest (vi+1) n'
    | .filter =>
      match s with
      | .filter f =>
        .predCall n :: (f n).evs ++
          (match (f n).res with
           | .val j =>
             if j.truthy then .attempt n (vi+1) (some (.imag n)) none :: stream rest (vi+1) (.imag n)
             else [.attempt n (vi+1) none none]
           | .raise e => [.raised (.traversing e)])
      | _ => []
    | .multi =>
      match itemsOf s n.data.view with
      | .wrongKind => [.attempt n (vi+1) none none]
      | .valueError => [.raised (.user "ValueError")]
      | .ok its =>
        (its.flatMap fun (nm, x) =>
          .attempt n (vi+1) (some (.child n nm x)) none :: stream rest (vi+1) (.child n nm x))
        ++ [.attempt n (vi+1) none none]
    | .recur =>
      if n.data.isContainer then
        .attempt n (vi+1) (some (.imag n)) none
          :: recBody (fun m => stream rest (vi+1) m) rest.isEmpty vi n n.data
      else [.attempt n (vi+1) none none]

/-- the prefix of a stream through the first exception -/
def takeThroughRaise {α} : List (Ev α) → List (Ev α)
  | [] => []
  | .raised e :: _ => [.raised e]
  | e :: rest => e :: takeThroughRaise rest

/-- number of match attempts (= `Trace` callbacks) in a stream -/
def attempts {α} (evs : List (Ev α)) : Nat :=
  evs.countP fun e => match e with | .attempt .. => true | _ => false

def resultsOf {α} (evs : List (Ev α)) : List (MNode α) :=
  evs.filterMap fun e => match e with | .result n => some n | _ => none

end Treepath

namespace Treepath

/-- number of node/step examinations the definition of a path requires from node `n`: one per
application of a step to a node, plus one per node the step produces (for a recursive step:
one per node of the pre-order listing) -/
def exams : List (Step J) → MNode J → Nat
  | [], _ => 0
  | .recur :: rest, n =>
    1 + ((recNodes n).map fun m => 1 + (if m.data.isContainer then exams rest (.imag m) else 0)).sum
  | s :: rest, n =>
    1 + ((evalStep s n).1.map fun m => 1 + exams rest m).sum

/-- match attempts of the search itself (events stamped with a predicate's candidate belong to
that predicate's own nested search) -/
def attemptsTop {α} (evs : List (Ev α)) : Nat :=
  evs.countP fun e => match e with | .attempt _ _ _ none => true | _ => false

end Treepath
