import Driver.Codec
import Driver.Query
import Driver.Mutate
import Driver.Builder
import Driver.Graph
