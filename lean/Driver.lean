import Driver.Codec
import Driver.Query
