#!/bin/sh
# every stored behaviour-preserving refactoring against all 20 quick checks (run from a snapshot: vp run -- ./tools_recheck_harmless.sh)
here=$(pwd)
(cd lean && lake build Treepath tpdriver >/dev/null 2>&1)
n=0; sk=${SHARD%%/*}; sn=${SHARD##*/}
for d in seeded/harmless/R*; do
  [ -n "$ONLY" ] && ! (basename $d | grep -Eq "$ONLY") && continue
  n=$((n+1)); [ -n "$SHARD" ] && [ $((n % sn)) -ne $((sk % sn)) ] && continue
  patch="$here/$d/patch.diff"
  wt=$(mktemp -d /tmp/hwt.XXXXXX); rmdir "$wt"
  git -C /repo worktree add -q "$wt" HEAD || exit 3
  git -C "$wt" apply "$patch" || { echo "$(basename $d) APPLY FAILED"; git -C /repo worktree remove --force "$wt"; continue; }
  bad=""
  for p in C01 C02 C03 C04 C05 C06 C07 C08 C09 C10 C11 C12 C13 C14 C15 C16 C17 C18 C19 C20; do
    out=$(VERIF_REPO="$wt" ./check "$p" --tier quick 2>&1); rc=$?
    if [ $rc -ne 0 ]; then bad="$bad $p"; echo "ALARM $(basename $d) $p (exit $rc)"; echo "$out" | grep -E "^(VIOLATION|INFRA)" | head -2; fi
  done
  [ -z "$bad" ] && echo "$(basename $d): silent on all 20"
  git -C /repo worktree remove --force "$wt"
done
